"""Random / boundary generators of abstract states and programs (inputs only: no semantics here).

Everything is driven by a seeded random.Random so that a run is reproducible from VERIF_SEED.
"""
import json, os, random, struct

MININT, MAXINT = -2147483648, 2147483647


def f2b(x):
    """float -> IEEE-754 binary32 bit pattern as a signed 32-bit integer."""
    u = struct.unpack("<I", struct.pack("<f", x))[0]
    return u - (1 << 32) if u >= (1 << 31) else u


def b2f(b):
    return struct.unpack("<f", struct.pack("<I", b & 0xFFFFFFFF))[0]


F_POOL = [f2b(x) for x in (0.0, -0.0, 1.0, -1.0, 0.5, 1.5, -2.5, 3.0, 2.0 ** -10, 4096.0, 0.1, 100.25, -7.75,
                            float("inf"), float("-inf"), 3.4028235e38, 1e-40, 1e-8, -1e-8, 1.1754944e-38, 1e-7, 1.2e-7, 2.0 ** -12, -(2.0 ** -11), 3 * 2.0 ** -13)] + [2143289344, -4194304, 1, 1070141403, -1077342245, 1083624420, 1078530011]
I_POOL = [MININT, MININT + 1, -2, -1, 0, 1, 2, 3, 4, 5, 7, 10, 100, MAXINT - 1, MAXINT]
NAMES = ["a", "b", "c", "foo", "x1"]

DEFAULT_CFG = {"max_f": f2b(1.0), "min_f": f2b(-1.0), "max_i": 10, "min_i": -10, "push_limit": 1000,
               "time_limit": 5000, "growth_cap": 500, "new_name_p": 981668463, "max_rand_points": 25,
               "max_prog_points": 100, "in_cap": 10, "out_cap": 3, "graph_cap": 100}


def empty_state():
    return {"exec": [], "code": [], "int": [], "float": [], "bool": [], "name": [], "bvec": [], "ivec": [],
            "fvec": [], "index": [], "graph": [], "input": [], "output": [], "bind": {}, "quote": False,
            "send": False, "nid": 1, "cfg": dict(DEFAULT_CFG)}


class Gen:
    def __init__(self, seed, registry, small_ints=False):
        self.r = random.Random(seed)
        self.registry = list(registry)
        self.small_ints = small_ints

    # ---- values
    def int(self):
        r = self.r
        k = r.random()
        if self.small_ints or k < 0.6:
            return r.randint(-6, 12) if r.random() < 0.93 else r.choice([63, 64, 65, 70, 100, 101, 127, 128, 255, 256, 1000])
        if k < 0.8:
            return r.choice(I_POOL)
        return r.randint(MININT, MAXINT)

    def float(self):
        r = self.r
        k = r.random()
        if k < 0.55:
            return r.choice(F_POOL)
        if k < 0.8:          # small dyadics: exactly specified arithmetic
            return f2b(r.randint(-64, 64) / r.choice([1, 2, 4, 8, 16]))
        return r.randint(MININT, MAXINT)   # arbitrary bit pattern (includes NaNs, subnormals)

    def _len(self, maxlen):
        # mostly short vectors, sometimes long ones (length-dependent code paths)
        return self.r.randint(0, maxlen) if self.r.random() < 0.85 else self.r.randint(maxlen, 4 * maxlen)

    def bvec(self, maxlen=6):
        return [self.r.random() < 0.5 for _ in range(self._len(maxlen))]

    def ivec(self, maxlen=6):
        if self.r.random() < 0.3:      # stack-id vectors for LIST.*
            return [self.r.choice([1, 2, 3, 4, 5, 6, 9, 10, 11, 0, 13]) for _ in range(self.r.randint(0, 5))]
        return [self.int() for _ in range(self._len(maxlen))]

    def fvec(self, maxlen=6):
        return [self.float() for _ in range(self._len(maxlen))]

    def name(self):
        return self.r.choice(NAMES)

    def index(self):
        d = self.r.randint(0, 5)
        return {"cur": self.r.randint(0, d), "dst": d}

    def graph(self, nid):
        """a structurally valid graph whose ids are below nid"""
        r = self.r
        ids = sorted(r.sample(range(1, max(2, nid)), min(r.randint(0, 4), max(1, nid - 1)))) if nid > 1 else []
        nodes = [{"id": i, "st": r.randint(0, 3)} for i in ids]
        edges = []
        for d in ids:
            if r.random() < 0.6:
                os_ = r.sample(ids, r.randint(0, len(ids)))
                if os_ or r.random() < 0.2:
                    edges.append({"d": d, "in": [{"o": o, "w": self.float()} for o in os_]})
        return {"nodes": nodes, "edges": edges}

    def msg(self):
        return {"h": [self.int() for _ in range(self.r.randint(0, 3))], "b": self.bvec(4)}

    # ---- items / programs
    def atom(self):
        r = self.r
        k = r.random()
        if k < 0.45:
            return {"k": "ins", "v": r.choice(self.registry)}
        if k < 0.62:
            return {"k": "int", "v": self.int()}
        if k < 0.72:
            return {"k": "float", "v": self.float()}
        if k < 0.80:
            return {"k": "bool", "v": r.random() < 0.5}
        if k < 0.90:
            return {"k": "id", "v": self.name()}
        if k < 0.93:
            return {"k": "bvec", "v": self.bvec()}
        if k < 0.97:
            return {"k": "ivec", "v": self.ivec()}
        return {"k": "fvec", "v": self.fvec()}

    def item(self, points, plain=False):
        """an item with exactly `points` points (plain: nothing whose printed form is not modelled)"""
        if points <= 1:
            a = self.atom()
            while plain and a["k"] in ("float", "fvec"):
                a = self.atom()
            return a
        rest = points - 1
        kids = []
        while rest > 0:
            k = self.r.randint(1, rest)
            kids.append(self.item(k, plain))
            rest -= k
        return {"k": "list", "v": kids}

    def state(self, depth=3, with_graph=True):
        r = self.r
        s = empty_state()
        s["int"] = [self.int() for _ in range(r.randint(0, depth + 2))]
        s["float"] = [self.float() for _ in range(r.randint(0, depth))]
        s["bool"] = [r.random() < 0.5 for _ in range(r.randint(0, depth))]
        s["name"] = [self.name() for _ in range(r.randint(0, depth))]
        s["code"] = [self.item(r.randint(1, 6)) for _ in range(r.randint(0, depth))]
        s["bvec"] = [self.bvec() for _ in range(r.randint(0, depth))]
        s["ivec"] = [self.ivec() for _ in range(r.randint(0, depth))]
        s["fvec"] = [self.fvec() for _ in range(r.randint(0, depth))]
        s["index"] = [self.index() for _ in range(r.randint(0, 2))]
        s["nid"] = r.randint(1, 9)
        if with_graph:
            s["graph"] = [self.graph(s["nid"]) for _ in range(r.randint(0, 2))]
        s["input"] = [self.msg() for _ in range(r.randint(0, 3))]
        s["output"] = [self.msg() for _ in range(r.randint(0, 2))]
        for _ in range(r.randint(0, 3)):
            s["bind"][self.name()] = self.item(r.randint(1, 3))
        s["quote"] = r.random() < 0.1
        s["send"] = r.random() < 0.15
        if r.random() < 0.25:      # configuration fields no instruction is documented to consult per step
            s["cfg"]["max_prog_points"] = r.choice([0, 1, 3, 5, 20, -1])
            s["cfg"]["growth_cap"] = r.choice([0, 1, 2, 500])
            s["cfg"]["push_limit"] = r.choice([-1, 0, 1, 5, 1000])
            s["cfg"]["max_rand_points"] = r.choice([25, 3, 0, -5, 50])
        if r.random() < 0.2:   # queues / graph stack of another capacity than the default (installed by the host)
            s["cfg"]["in_cap"], s["cfg"]["out_cap"], s["cfg"]["graph_cap"] = r.choice([1, 3, 10, 12]), r.choice([1, 2, 5, 8]), r.choice([1, 2, 3, 150])
            s["input"] = s["input"][:s["cfg"]["in_cap"]]
            s["output"] = s["output"][:s["cfg"]["out_cap"]]
            s["graph"] = s["graph"][:s["cfg"]["graph_cap"]]
        if r.random() < 0.1:   # the probability of a new name is a configuration value like any other (CODE.RAND consults it)
            s["cfg"]["new_name_p"] = r.choice([0, f2b(0.5), f2b(1.0), f2b(1.5), f2b(-0.25), 2143289344])
        if r.random() < 0.5:   # rotated ring positions (invisible in the abstract state)
            s["rot"] = {"input": r.randint(0, 12), "output": r.randint(0, 4), "graph": r.choice([0, 0, 1, 99, 100, 150])}
        if r.random() < 0.3:
            lo = r.randint(-20, 20)
            s["cfg"]["min_i"], s["cfg"]["max_i"] = lo, lo + r.randint(1, 30)
            a, b = sorted([r.randint(-64, 64) / 8.0, r.randint(-64, 64) / 8.0])
            if a < b:
                s["cfg"]["min_f"], s["cfg"]["max_f"] = f2b(a), f2b(b)
        return s

    def program_state(self, points, depth=3):
        s = self.state(depth)
        s["exec"] = [self.item(points)]
        return s


def load_registry(path):
    return json.load(open(path))
