"""Shared machinery of the pushr verification checks.

TLC is the only oracle: this module only (1) asks TLC to model-check a bounded model and print
its cases, (2) lets the Rust harness execute cases against the real pushr code, (3) hands the
recorded events back to TLC for validation against the specification, and (4) turns TLC's
per-event verdicts into the exit code / evidence of one property check.
"""
import json, os, re, subprocess, sys, time, shutil, hashlib, random, signal
from concurrent.futures import ThreadPoolExecutor

VERIF = os.path.dirname(os.path.dirname(os.path.abspath(__file__)))
SPEC = os.path.join(VERIF, "spec")
MC = os.path.join(SPEC, "mc")
HARNESS = os.path.join(VERIF, "harness")
OUT = os.path.join(VERIF, "out")
# PV_REPO: check a scratch copy / worktree of pushr instead of /repo (used for seeded changes while
# other runs use /repo); the registered checks never set it, so they build /repo's working tree.
REPO = os.environ.get("PV_REPO", "/repo")
ALT = REPO != "/repo"
NCPU = os.cpu_count() or 4


if ALT:   # runs against a scratch copy keep their files (and evidence) apart
    OUT = os.path.join(OUT, "alt-" + hashlib.sha1(REPO.encode()).hexdigest()[:10])
EVIDENCE_DIR = os.path.join(VERIF, "evidence") if not ALT else os.path.join(OUT, "evidence")


def _target_root():
    if not ALT:
        return os.path.join(HARNESS, "target")
    return os.path.join(HARNESS, "target", "alt-" + hashlib.sha1(REPO.encode()).hexdigest()[:10])


class ToolError(Exception):
    pass


def log(*a):
    print("[pv]", *a, file=sys.stderr, flush=True)


def _die_with_parent():
    """child processes (executor, TLC) are killed when the check that started them dies"""
    try:
        import ctypes, signal
        ctypes.CDLL("libc.so.6").prctl(1, signal.SIGTERM)      # PR_SET_PDEATHSIG (timeout(1) forwards TERM to TLC)
    except Exception:
        pass


def run(cmd, **kw):
    return subprocess.run(cmd, stdout=subprocess.PIPE, stderr=subprocess.STDOUT, text=True, errors="replace", preexec_fn=_die_with_parent, **kw)


# ---------------------------------------------------------------------------------------------
# build

def build_harness(profile="dev"):
    """Rebuilds the harness (and pushr from /repo's working tree, hooks on). A no-op when unchanged."""
    env = dict(os.environ, CARGO_NET_OFFLINE="true")
    cmd = ["cargo", "build", "--offline", "--bins"] + (["--release"] if profile == "release" else [])
    if ALT:
        cmd += ["--config", 'paths=["%s"]' % REPO, "--target-dir", _target_root()]
    r = run(cmd, cwd=HARNESS, env=env)
    if r.returncode != 0:
        raise ToolError("harness build failed (%s):\n%s" % (profile, r.stdout[-4000:]))
    return os.path.join(_target_root(), "release" if profile == "release" else "debug")


def bin_path(name, profile="dev"):
    return os.path.join(_target_root(), "release" if profile == "release" else "debug", name)


# ---------------------------------------------------------------------------------------------
# TLC

def tlc_env(extra=None, deque=False):
    env = dict(os.environ)
    env["JAVA_TOOL_OPTIONS"] = "-Xss1g" + (" -Dtlc2.tool.queue.IStateQueue=StateDeque" if deque else "")
    if extra:
        env.update(extra)
    return env


def ensure_links():
    """mc/ and trace specs see the base modules through symlinks."""
    for f in os.listdir(SPEC):
        if f.endswith(".tla"):
            dst = os.path.join(MC, f)
            if not os.path.lexists(dst):
                os.symlink(os.path.join("..", f), dst)


TLC_STATS = re.compile(r"(\d+) states generated, (\d+) distinct states found")


def tla_set(vals):
    def one(v):
        if isinstance(v, str):
            return json.dumps(v)
        if isinstance(v, bool):
            return "TRUE" if v else "FALSE"
        if v == -2147483648:
            return "MinInt"
        return str(v)
    return "{" + ", ".join(one(v) for v in vals) + "}"


def run_mc_step(tag, instrs, pools, workdir, workers=8, timeout=1800):
    """Runs the bounded model MC_Step for one group of instructions. Returns (cases, stats)."""
    ensure_links()
    workdir = os.path.abspath(workdir)
    os.makedirs(workdir, exist_ok=True)
    mod = "MCrun_%d_" % os.getpid() + re.sub(r"[^A-Za-z0-9]", "_", tag)
    p = dict(IntVals=[-2147483648, -1, 0, 1, 2, 2147483647], FloatVals=[0, 1065353216], NameVals=["a", "b"],
             CodePool="atoms", VecPool="small", DInt=2, DFloat=2, DBool=2, DName=2, DCode=2, DExec=2, DVec=2,
             Interp=False, invariants=["FrameInv", "StackLaws", "ScalarLaws", "VectorLaws", "ListLaws", "Emit"])
    p.update(pools)
    with open(os.path.join(MC, mod + ".tla"), "w") as f:
        f.write("---- MODULE %s ----\nEXTENDS MC_Step\n" % mod)
        f.write("cInstrs == %s\n" % tla_set(sorted(instrs)))
        f.write("cIntVals == %s\ncFloatVals == %s\ncNameVals == %s\n====\n" % (
            tla_set(p["IntVals"]), tla_set(p["FloatVals"]), tla_set(p["NameVals"])))
    cfg = os.path.join(workdir, mod + ".cfg")
    with open(cfg, "w") as f:
        f.write("SPECIFICATION Spec\nCONSTANTS\n  Instrs <- cInstrs\n  IntVals <- cIntVals\n  FloatVals <- cFloatVals\n  NameVals <- cNameVals\n")
        f.write('  CodePool = "%s"\n  VecPool = "%s"\n' % (p["CodePool"], p["VecPool"]))
        for k in ("DInt", "DFloat", "DBool", "DName", "DCode", "DExec", "DVec"):
            f.write("  %s = %d\n" % (k, p[k]))
        f.write("  Interp = %s\n" % ("TRUE" if p["Interp"] else "FALSE"))
        f.write("INVARIANTS %s\nCHECK_DEADLOCK FALSE\n" % " ".join(p["invariants"]))
    outp = os.path.join(workdir, mod + ".out")
    t0 = time.time()
    with open(outp, "w") as fo:
        r = subprocess.run(["timeout", str(timeout), "tlc", "-workers", str(workers), "-config", cfg,
                            "-metadir", os.path.join(workdir, "states_" + mod), "-cleanup", "-noGenerateSpecTE",
                            mod + ".tla"], cwd=MC, stdout=fo, stderr=subprocess.STDOUT, env=tlc_env(), preexec_fn=_die_with_parent)
    try:
        os.remove(os.path.join(MC, mod + ".tla"))
    except OSError:
        pass
    shutil.rmtree(os.path.join(workdir, "states_" + mod), ignore_errors=True)
    cases, tail, ok = [], [], False
    with open(outp) as f:
        for line in f:
            if line.startswith('"CASE '):
                cases.append(json.loads(json.loads(line)[5:]))
            else:
                tail.append(line)
                if "Model checking completed. No error has been found." in line:
                    ok = True
    text = "".join(tail)
    m = TLC_STATS.search(text)
    stats = dict(states=int(m.group(2)) if m else 0, transitions=int(m.group(1)) if m else 0,
                 wall_s=round(time.time() - t0, 1), cases=len(cases), tag=tag)
    if not ok:
        stats["error"] = text[-3000:]
    return cases, stats


def run_tlc_model(mod, cfg_text, workdir, workers=8, timeout=1800, tag=None):
    """Runs an MC module of spec/mc with the given cfg text. Returns (case dicts, stats)."""
    ensure_links()
    workdir = os.path.abspath(workdir)
    os.makedirs(workdir, exist_ok=True)
    tag = tag or mod
    cfg = os.path.join(workdir, tag + ".cfg")
    open(cfg, "w").write(cfg_text)
    outp = os.path.join(workdir, tag + ".out")
    t0 = time.time()
    with open(outp, "w") as fo:
        subprocess.run(["timeout", str(timeout), "tlc", "-workers", str(workers), "-config", cfg,
                        "-metadir", os.path.join(workdir, "states_" + tag), "-cleanup", "-noGenerateSpecTE",
                        mod + ".tla"], cwd=MC, stdout=fo, stderr=subprocess.STDOUT, env=tlc_env(), preexec_fn=_die_with_parent)
    shutil.rmtree(os.path.join(workdir, "states_" + tag), ignore_errors=True)
    cases, tail, ok = [], [], False
    with open(outp) as f:
        for line in f:
            if line.startswith('"CASE '):
                cases.append(json.loads(json.loads(line)[5:]))
            else:
                tail.append(line)
                if "Model checking completed. No error has been found." in line:
                    ok = True
    text = "".join(tail)
    m = TLC_STATS.search(text)
    stats = dict(states=int(m.group(2)) if m else 0, transitions=int(m.group(1)) if m else 0,
                 wall_s=round(time.time() - t0, 1), cases=len(cases), tag=tag)
    if not ok:
        stats["error"] = text[-3000:]
    return cases, stats


def _get_base_once():
    """The sentinel state of MC_Step, printed by TLC once and cached by content hash of the module."""
    ensure_links()
    h = hashlib.sha1(open(os.path.join(MC, "MC_Step.tla"), "rb").read() + open(os.path.join(SPEC, "PushState.tla"), "rb").read()).hexdigest()[:12]
    cache = os.path.join(VERIF, "out", "base_%s.json" % h)
    if os.path.exists(cache):
        return json.load(open(cache))
    os.makedirs(OUT, exist_ok=True)
    mod = "MCbase_%d" % os.getpid()
    with open(os.path.join(MC, mod + ".tla"), "w") as f:
        f.write('---- MODULE %s ----\nEXTENDS MC_Step\nASSUME PrintT("BASE " \\o ToJson(Base))\n====\n' % mod)
    cfg = os.path.join(OUT, mod + ".cfg")
    with open(cfg, "w") as f:
        f.write('INIT Init\nNEXT Next\nCONSTANTS\n Instrs = {}\n IntVals = {}\n FloatVals = {}\n NameVals = {}\n CodePool = "atoms"\n VecPool = "small"\n DInt = 0\n DFloat = 0\n DBool = 0\n DName = 0\n DCode = 0\n DExec = 0\n DVec = 0\n Interp = FALSE\n')
    r = run(["timeout", "300", "tlc", "-workers", "1", "-config", cfg, "-metadir", os.path.join(OUT, "states_base"),
             "-cleanup", "-noGenerateSpecTE", mod + ".tla"], cwd=MC, env=tlc_env())
    try:
        os.remove(os.path.join(MC, mod + ".tla"))
    except OSError:
        pass
    shutil.rmtree(os.path.join(OUT, "states_base"), ignore_errors=True)
    for line in r.stdout.splitlines():
        if line.startswith('"BASE '):
            base = json.loads(json.loads(line)[5:])
            if base.get("bind") == []:
                base["bind"] = {}
            tmp = cache + ".%d" % os.getpid()
            json.dump(base, open(tmp, "w"))
            os.replace(tmp, cache)
            return base
    raise ToolError("could not obtain Base from TLC:\n" + r.stdout[-2000:])


def _spec_registry_once():
    """The instruction names the specification gives a meaning to (PushMatch.Registry), printed by TLC once and cached
    by the content hash of the specification modules."""
    ensure_links()
    h = hashlib.sha1()
    for f in sorted(os.listdir(SPEC)):
        if f.startswith("Push") and f.endswith(".tla"):
            h.update(open(os.path.join(SPEC, f), "rb").read())
    cache = os.path.join(VERIF, "out", "specreg_%s.json" % h.hexdigest()[:12])
    if os.path.exists(cache):
        return json.load(open(cache))
    os.makedirs(os.path.join(VERIF, "out"), exist_ok=True)
    mod = "MCreg_%d" % os.getpid()
    with open(os.path.join(MC, mod + ".tla"), "w") as f:
        # (evaluated in Next, on a worker thread: TLC evaluates ASSUMEs on its main thread, whose stack -Xss does not enlarge)
        f.write('---- MODULE %s ----\nEXTENDS PushMatch, Json, TLC\nVARIABLE x\nInit == x = 0\n'
                'Next == x = 0 /\\ PrintT("REG " \\o ToJson(SetAsSeq(Registry))) /\\ x\' = 1\n====\n' % mod)
    cfg = os.path.join(VERIF, "out", mod + ".cfg")
    open(cfg, "w").write("INIT Init\nNEXT Next\nCHECK_DEADLOCK FALSE\n")
    r = run(["timeout", "300", "tlc", "-workers", "1", "-config", cfg, "-metadir", os.path.join(VERIF, "out", "states_" + mod),
             "-cleanup", "-noGenerateSpecTE", mod + ".tla"], cwd=MC, env=tlc_env())
    for f in (os.path.join(MC, mod + ".tla"), cfg):
        try:
            os.remove(f)
        except OSError:
            pass
    shutil.rmtree(os.path.join(VERIF, "out", "states_" + mod), ignore_errors=True)
    for line in r.stdout.splitlines():
        if line.startswith('"REG '):
            reg = sorted(json.loads(json.loads(line)[4:]))
            tmp = cache + ".%d" % os.getpid()
            json.dump(reg, open(tmp, "w"))
            os.replace(tmp, cache)
            return reg
    raise ToolError("could not obtain Registry from TLC:\n" + r.stdout[-2000:])


def _twice(f):
    """One retry for the two small TLC runs every check starts with (a JVM hiccup there must not cost the whole check)."""
    try:
        return f()
    except ToolError:
        time.sleep(2)
        return f()


def get_base():
    return _twice(_get_base_once)


def spec_registry():
    return _twice(_spec_registry_once)


def expand_cases(cases, base, prefix):
    """TLC prints only the fields that differ from the sentinel state."""
    out = []
    for i, c in enumerate(cases):
        st = dict(base)
        st.update(c)
        out.append({"id": "%s-%06d" % (prefix, i), "pre": st, "acts": [{"a": "step"}]})
    return out


# ---------------------------------------------------------------------------------------------
# executing cases against the real code (supervised)

def exec_cases(cases_path, events_path, profile="dev", mem_kb=4 * 1024 * 1024, timeout_case=20, total_timeout=3600, env=None,
               max_hangs=12):
    """Runs pv-exec over a case file under an address-space cap and a watchdog. Cases on which the
    process aborts or hangs are recorded as crash events and execution resumes after them. After
    max_hangs hanging cases the rest of the file is not executed (each hang costs timeout_case seconds and
    the stage already has that many crash events to report); None = no such cut."""
    exe = bin_path("pv-exec", profile)
    if os.path.exists(events_path):
        os.remove(events_path)
    prog = events_path + ".progress"
    start = 0
    ncases = sum(1 for _ in open(cases_path))
    aborted = []
    t_end = time.time() + total_timeout
    while start < ncases:
        if os.path.exists(prog):
            os.remove(prog)
        # (whatever the code under test writes to stdout / stderr goes to a file: a pipe nobody reads would block it)
        errp = events_path + ".stderr"
        errf = open(errp, "wb")
        p = subprocess.Popen(["bash", "-c", "ulimit -v %d; ulimit -s 65536; exec %s %s %s %d" % (mem_kb, exe, cases_path, events_path, start)],
                             stdout=subprocess.DEVNULL, stderr=errf, env=dict(os.environ, **(env or {})), preexec_fn=_die_with_parent)
        errf.close()
        # a case hangs when the process has burnt timeout_case seconds of CPU time on it (a busy machine does not
        # make a case hang), or made no progress for 10 x timeout_case seconds of wall-clock time (sleeping hang)
        last = (None, time.time(), _cpu_seconds(p.pid))
        why = None
        while True:
            try:
                p.wait(timeout=1.0)
                break
            except subprocess.TimeoutExpired:
                cur = open(prog).read() if os.path.exists(prog) else None
                if cur != last[0]:
                    last = (cur, time.time(), _cpu_seconds(p.pid))
                elif _cpu_seconds(p.pid) - last[2] > timeout_case or time.time() - last[1] > 10 * timeout_case:
                    why = "timeout"
                    p.kill()
                    p.wait()
                    break
                if time.time() > t_end:
                    p.kill()
                    raise ToolError("pv-exec exceeded the total timeout")
        cur = open(prog).read().strip() if os.path.exists(prog) else ""
        if p.returncode == 0 and cur == "done":
            break
        if cur in ("", "done"):
            raise ToolError("pv-exec failed without progress: rc=%s %s" % (p.returncode, open(errp, "rb").read()[-500:].decode(errors="replace")))
        n = int(cur)
        if why is None:
            why = "abort"
        # record the failing case as a crash event (pre-state taken from the case itself)
        with open(cases_path) as f:
            for k, line in enumerate(f):
                if k == n:
                    case = json.loads(line)
                    break
        if case.get("api"):     # an API case: which of its calls was running is not known
            ops = case.get("ops") or [{}]
            act = {"a": case["api"], "m": ops[0].get("m", "?") if len(ops) == 1 else "(one of %d calls)" % len(ops), "args": ops[0].get("args", []) if len(ops) == 1 else [],
                   "kind": case.get("kind", ""), "elem": case.get("elem", "")}
        else:
            act = (case.get("acts") or [{}])[0]
        ev = {"id": case["id"], "i": 0, "pre": case.get("pre", {}), "act": act,
              "post": {"crash": why, "msg": "process %s (rc=%s)" % (why, p.returncode)}}
        if "predict" in case:
            ev["predict"] = case["predict"]
        # drop partial events of that case
        _truncate_case(events_path, case["id"])
        with open(events_path, "a") as f:
            f.write(json.dumps(ev) + "\n")
        aborted.append((case["id"], why))
        start = n + 1
        if max_hangs is not None and sum(1 for _, w in aborted if w == "timeout") >= max_hangs:
            break
    return aborted


def _cpu_seconds(pid):
    """user + system CPU time consumed so far by process pid (0 if it cannot be read)"""
    try:
        f = open("/proc/%d/stat" % pid).read().rsplit(")", 1)[1].split()
        return (int(f[11]) + int(f[12])) / os.sysconf("SC_CLK_TCK")
    except Exception:
        return 0.0


def _truncate_case(events_path, cid):
    if not os.path.exists(events_path):
        return
    lines = [ln + "\n" for ln in open(events_path, encoding="utf-8").read().split("\n") if ln]
    keep = []
    for ln in lines:
        if not ln.endswith("\n"):
            continue          # partial last line
        try:
            if json.loads(ln).get("id") == cid:
                continue
        except ValueError:
            continue
        keep.append(ln)
    open(events_path, "w", encoding="utf-8").writelines(keep)


# ---------------------------------------------------------------------------------------------
# trace validation

def validate_events(events_path, workdir, spec="Trace", chunk=4000, jobs=None, extra_env=None, timeout=1800):
    """Validates an event file with TLC (Trace.tla). Chains are kept within one chunk.
    Returns (verdicts, nevents): verdicts = list of dicts (only events TLC did not accept as ideal)."""
    workdir = os.path.abspath(workdir)
    os.makedirs(workdir, exist_ok=True)
    jobs = jobs or max(1, min(12, NCPU - 2))
    # split into chunks at case boundaries (an event with "pre" starts a chain)
    chunks, cur, n = [], [], 0
    with open(events_path) as f:
        for line in f:
            if not line.strip():
                continue
            starts = '"pre"' in line
            if len(cur) >= chunk and starts:
                chunks.append(cur)
                cur = []
            cur.append(line)
            n += 1
    if cur:
        chunks.append(cur)
    paths = []
    for k, c in enumerate(chunks):
        p = os.path.join(workdir, "chunk_%04d.ndjson" % k)
        open(p, "w").writelines(c)
        paths.append((k, p, len(c)))

    def run_tlc(k, p, sub):
        env = tlc_env(dict(TRACE=p), deque=True)
        if extra_env:
            env.update(extra_env)
        md = os.path.join(workdir, "st_%04d_%d" % (k, sub))
        r = run(["timeout", str(timeout), "tlc", "-workers", "1", "-config", spec + ".cfg", "-metadir", md,
                 "-cleanup", "-noGenerateSpecTE", spec + ".tla"], cwd=SPEC, env=env)
        shutil.rmtree(md, ignore_errors=True)
        vs, done = [], None
        for line in r.stdout.splitlines():
            if line.startswith('"EV '):
                vs.append(json.loads(json.loads(line)[3:]))
            elif line.startswith('"DONE '):
                done = int(json.loads(line)[5:])
        return vs, done, r.stdout

    def one(arg):
        """validates one chunk; an event on which TLC cannot evaluate the specification at all (a
        recorded state outside anything the model can represent) is reported as a mismatch owned by
        every property, and validation resumes at the next case"""
        k, p, cnt = arg
        lines = [ln + "\n" for ln in open(p, encoding="utf-8").read().split("\n") if ln]   # only \n ends an event
        out, offset, sub = [], 0, 0
        while offset < len(lines):
            part = p if offset == 0 else p + ".part%d" % sub
            if offset:
                open(part, "w", encoding="utf-8").writelines(lines[offset:])
            vs, done, text = run_tlc(k, part, sub)
            for v in vs:
                v["l"] += offset
                v["chunk"] = k
            out.extend(vs)
            if done == len(lines) - offset:
                break
            m = re.findall(r"/\\ l = (\d+)", text)
            if not m or "Error" not in text or sub > 300:
                raise ToolError("trace validation did not consume chunk %s (%s of %s events):\n%s" % (part, done, len(lines) - offset, text[-3000:]))
            bad = int(m[-1])                       # 1-based index (within this part) of the event being consumed
            e = json.loads(lines[offset + bad - 1])
            reason = re.search(r"Error: (.*?)\n\n", text, re.S)
            out.append({"l": offset + bad, "id": e.get("id"), "i": e.get("i"), "chunk": k,
                        "j": {"v": "mismatch", "subj": "spec-eval:" + str(e["act"].get("a") if isinstance(e.get("act"), dict) else e.get("act")), "owner": "*", "dev": "",
                              "fields": [], "frame": [], "msg": "the recorded state is outside what the specification can evaluate: " +
                              (reason.group(1)[:300] if reason else "TLC evaluation error")}})
            out = [v for v in out if v["l"] <= offset + bad]
            nxt = offset + bad
            while nxt < len(lines) and '"pre"' not in lines[nxt]:
                nxt += 1
            offset, sub = nxt, sub + 1
        return out

    verdicts = []
    with ThreadPoolExecutor(max_workers=jobs) as ex:
        for vs in ex.map(one, paths):
            verdicts.extend(vs)
    return verdicts, n, paths


def event_at(paths, chunk, l):
    """The raw event number l (1-based) of a chunk, with its effective pre-state."""
    p = [x for x in paths if x[0] == chunk][0][1]
    prev = None
    with open(p) as f:
        for k, line in enumerate(f, 1):
            e = json.loads(line)
            if "pre" not in e and prev is not None and "crash" not in prev.get("post", {}):
                e["pre"] = prev["post"]
            if k == l:
                return e
            prev = e
    return None
