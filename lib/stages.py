"""Stages of a property check and the judgement of TLC's verdicts.

A stage produces events recorded from the real code (replayed TLC cases, or driver-generated
cases), has them validated by TLC against the specification and returns the verdicts.
"""
import json, os, time, collections
import pv, gen


class Ctx:
    def __init__(self, pid, tier, seed):
        self.pid, self.tier, self.seed = pid, tier, seed
        self.work = os.path.join(pv.OUT, "check", pid)
        import shutil
        shutil.rmtree(self.work, ignore_errors=True)      # every run starts from an empty work directory
        os.makedirs(self.work, exist_ok=True)
        built = json.load(open(os.path.join(pv.OUT, "registry.json")))
        spec = set(pv.spec_registry())
        # instructions the build registers: those the specification gives a meaning to, and the others (a registered
        # instruction without a specification is parsed, printed and executed like any other, but its steps are not judged)
        self.registry = [n for n in built if n in spec]
        self.extra = [n for n in built if n not in spec]
        xp = os.path.join(self.work, "extra_instr.json")
        json.dump(self.extra, open(xp, "w"))
        os.environ["PV_EXTRA_INSTR"] = xp if self.extra else ""
        self.base = None
        self.stats = dict(states=0, transitions=0, events=0, cases_replayed=0, tlc_runs=[], envelope=0,
                          foreign_mismatches=0, stages=[])
        self.verdicts = []       # (stage, verdict dict)
        self.samples = []
        self.paths = {}

    def get_base(self):
        if self.base is None:
            self.base = pv.get_base()
        return self.base


F = dict(zero=0, nzero=-2147483648, one=1065353216, mone=-1082130432, nan=2143289344, inf=2139095040,
         ninf=-8388608, h=1056964608, x15=1069547520, m25=-1071644672, three=1077936128, tiny=981467136,
         big=1166016512, max=2139095039, tenth=1036831949, two=1073741824)


def run_events(ctx, stage, cases, profile="dev", spec="Trace", extra_env=None, **exec_kw):
    """cases -> real code -> TLC. Appends the verdicts to ctx."""
    cp = os.path.join(ctx.work, stage + ".cases.ndjson")
    with open(cp, "w") as f:
        for c in cases:
            f.write(json.dumps(c) + "\n")
    ep = os.path.join(ctx.work, stage + ".events.ndjson")
    t0 = time.time()
    aborted = pv.exec_cases(cp, ep, profile, **exec_kw)
    t1 = time.time()
    vs, n, paths = pv.validate_events(ep, os.path.join(ctx.work, "val_" + stage), spec=spec, extra_env=extra_env)
    ctx.paths[stage] = paths
    ctx.stats["events"] += n
    ctx.stats["cases_replayed"] += len(cases)
    ctx.stats["stages"].append(dict(stage=stage, cases=len(cases), events=n, non_ideal=len(vs), aborted=len(aborted),
                                    exec_s=round(t1 - t0, 1), validate_s=round(time.time() - t1, 1), profile=profile))
    for v in vs:
        ctx.verdicts.append((stage, v))
    if cases and len(ctx.samples) < 6:
        with open(ep) as f:
            line = f.readline()
            if line:
                e = json.loads(line)
                ctx.samples.append({"stage": stage, "case": e.get("id"), "act": e.get("act"),
                                    "pre_exec": e.get("pre", {}).get("exec", [])[:3] if isinstance(e.get("pre"), dict) else None,
                                    "ret": e.get("ret")})
    return n


def mc_stage(ctx, tag, instrs, pools, profile="dev", workers=12):
    """Bounded model MC_Step over a group of instructions: model-check it, replay every case."""
    cases, st = pv.run_mc_step(ctx.pid + "_" + tag, instrs, pools, ctx.work, workers=workers)
    if "error" in st:
        raise pv.ToolError("TLC failed on the bounded model %s:\n%s" % (tag, st["error"]))
    ctx.stats["states"] += st["states"]
    ctx.stats["transitions"] += st["transitions"]
    ctx.stats["tlc_runs"].append(st)
    cs = pv.expand_cases(cases, ctx.get_base(), tag)
    run_events(ctx, "mc_" + tag, cs, profile)
    return len(cs)


def behav_stage(ctx, which, n, steps=600):
    """Bounded behaviour model MC_Behav: TLC checks the documented behaviour of every catalogue
    program on the specification and prints it; the real code replays each program step by step."""
    cfg = 'SPECIFICATION Spec\nCONSTANTS\n Which = "%s"\n N = %d\nINVARIANTS Expected Determinate Emit\nPROPERTY Terminates\nCHECK_DEADLOCK FALSE\n' % (which, n)
    cases, st = pv.run_tlc_model("MC_Behav", cfg, ctx.work, workers=8, tag="behav_" + which)
    if "error" in st:
        raise pv.ToolError("TLC failed on the behaviour model %s:\n%s" % (which, st["error"]))
    ctx.stats["states"] += st["states"]
    ctx.stats["transitions"] += st["transitions"]
    ctx.stats["tlc_runs"].append(st)
    cs = []
    for i, c in enumerate(cases):
        pre = c["pre"]
        if pre.get("bind") == []:
            pre["bind"] = {}
        cs.append({"id": "behav-%s-%04d" % (which, i), "pre": pre, "acts": [{"a": "steps", "k": steps}], "expect": c["expect"]})
    run_events(ctx, "behav_" + which, cs)
    return len(cs)


def random_program_cases(ctx, n, seed, max_points=40, steps=120, prefix="rp", registry=None):
    g = gen.Gen(seed, registry or ctx.registry)
    cases = []
    for i in range(n):
        s = g.program_state(g.r.randint(1, max_points))
        cases.append({"id": "%s-%d-%05d" % (prefix, seed, i), "pre": s, "acts": [{"a": "steps", "k": steps}]})
    return cases


def random_instr_cases(ctx, instrs, n_each, seed, prefix="ri", small_ints=False, registry=None):
    """each instruction in a random state with generous operand stacks"""
    g = gen.Gen(seed, registry or ctx.registry, small_ints=small_ints)
    cases = []
    for name in instrs:
        for i in range(n_each):
            s = g.state(depth=4)
            s["exec"] = [{"k": "ins", "v": name}] + [g.item(g.r.randint(1, 4)) for _ in range(g.r.randint(0, 3))]
            cases.append({"id": "%s-%s-%d-%04d" % (prefix, name, seed, i), "pre": s, "acts": [{"a": "step"}]})
    return cases


# ---------------------------------------------------------------------------------------------
# judgement

def load_findings():
    kf = json.load(open(os.path.join(pv.VERIF, "known_findings.json")))
    return {f["id"]: f for f in kf["findings"]}


def judge(ctx, owns_crash=False, frame=False, extra_owner=None):
    """Turns TLC's verdicts into (violations, known findings) for property ctx.pid.
       mismatch / crash of a subject owned by this property -> violation
       crash anywhere                                   -> violation iff owns_crash (C01)
       frame violation                                  -> violation iff frame (C10)
       deviation (known finding) of this property       -> KNOWN-FINDING line"""
    findings = load_findings()
    viol, known = [], collections.OrderedDict()
    for stage, v in ctx.verdicts:
        j = v["j"]
        kind = j["v"]
        mine = j.get("owner") in (ctx.pid, "*") or bool(extra_owner and extra_owner(j, stage))
        if kind == "envelope":
            ctx.stats["envelope"] += 1
            continue
        if kind == "dev":
            f = findings.get(j["dev"])
            if f is None:
                raise pv.ToolError("deviation %s is not listed in known_findings.json" % j["dev"])
            if f["property"] == ctx.pid:
                known.setdefault(j["dev"], 0)
                known[j["dev"]] += 1
            continue
        if kind == "ok":
            if frame and j.get("frame"):
                viol.append((stage, v, "frame"))
            continue
        if kind in ("mismatch", "crash"):
            if mine or (kind == "crash" and owns_crash):
                viol.append((stage, v, kind))
            else:
                ctx.stats["foreign_mismatches"] += 1
                if j.get("owner") == "EXT":      # extended coverage: reported as a note, never as a violation
                    ctx.stats.setdefault("ext_notes", {}).setdefault("%s: %s" % (j.get("subj"), j.get("msg", "")[:160]), 0)
                    ctx.stats["ext_notes"]["%s: %s" % (j.get("subj"), j.get("msg", "")[:160])] += 1
            if frame and j.get("frame"):
                viol.append((stage, v, "frame"))
            continue
        if kind == "unknown-act":
            raise pv.ToolError("trace contains an action the trace specification does not know: %s" % j)
        # verdict kinds of the special trace specs carry their own ownership
        if mine:
            viol.append((stage, v, kind))
        else:
            ctx.stats["foreign_mismatches"] += 1
    return viol, known
