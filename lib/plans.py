"""Per-property plans: which bounded models TLC explores, which drivers record the real code,
and which of TLC's verdicts count for the property (verdict ownership, DESIGN.md section 5)."""
import json, os, re, time
import pv, stages, gen
from stages import F, mc_stage, run_events, random_program_cases, random_instr_cases

IP10 = [-2147483648, -2147483647, -2, -1, 0, 1, 2, 3, 2147483646, 2147483647]
IP6 = [-2147483648, -1, 0, 1, 2, 2147483647]
IDX8 = [-2147483648, -1, 0, 1, 2, 3, 4, 2147483647]
FP15 = [F[k] for k in ("zero", "nzero", "one", "mone", "h", "x15", "m25", "three", "tiny", "big", "inf", "ninf", "nan", "tenth", "max")]
FP7 = [F[k] for k in ("zero", "nzero", "one", "m25", "h", "inf", "nan")]

GENERIC_OPS = ("DUP", "POP", "FLUSH", "SWAP", "ROT", "YANK", "YANKDUP", "SHOVE", "STACKDEPTH", "ID", "DEFINE")
NINE = ("BOOLEAN", "INTEGER", "FLOAT", "NAME", "CODE", "EXEC", "BOOLVECTOR", "INTVECTOR", "FLOATVECTOR")


def is_stackop(n):
    t, _, op = n.partition(".")
    return t in NINE and op in GENERIC_OPS


def fam(reg, pred):
    return [n for n in reg if pred(n)]


def scalar_instrs(reg):
    return fam(reg, lambda n: n.split(".")[0] in ("BOOLEAN", "INTEGER", "FLOAT", "NAME") and not is_stackop(n)
               and not n.endswith("RAND") and n != "NAME.RANDBOUNDNAME") + ["CODE.FROMBOOLEAN", "CODE.FROMFLOAT", "CODE.FROMINTEGER", "CODE.FROMNAME"]


def stack_instrs(reg):
    return fam(reg, lambda n: is_stackop(n) and not n.endswith(".DEFINE"))


CONTROL = ["CODE.DO", "CODE.DO*", "CODE.IF", "CODE.LOOP", "CODE.QUOTE", "INTVECTOR.LOOP", "NOOP", "CODE.NOOP",
           "EXEC.=", "EXEC.IF", "EXEC.K", "EXEC.S", "EXEC.Y", "EXEC.LOOP",
           "INDEX.CURRENT", "INDEX.DEFINE", "INDEX.DESTINATION", "INDEX.FLUSH", "INDEX.INCREASE", "INDEX.POP"]
NAMES_FAM = lambda reg: fam(reg, lambda n: n.endswith(".DEFINE")) + ["CODE.DEFINITION", "NAME.QUOTE"]


def code_instrs(reg):
    skip = set(CONTROL) | {"CODE.DEFINITION", "CODE.RAND", "CODE.FROMBOOLEAN", "CODE.FROMFLOAT", "CODE.FROMINTEGER", "CODE.FROMNAME"}
    return fam(reg, lambda n: n.startswith("CODE.") and not is_stackop(n) and n not in skip)


def vector_instrs(reg):
    return fam(reg, lambda n: "VECTOR." in n and not is_stackop(n) and not n.endswith(".RAND") and n != "INTVECTOR.LOOP")


RAND = ["BOOLEAN.RAND", "INTEGER.RAND", "FLOAT.RAND", "NAME.RAND", "NAME.RANDBOUNDNAME", "BOOLVECTOR.RAND", "INTVECTOR.RAND", "FLOATVECTOR.RAND"]
LISTREC = ["LIST.ADD", "LIST.SET"]
LISTVAL = ["LIST.REMOVE", "LIST.GET", "LIST.BVAL", "LIST.IVAL", "LIST.FVAL"]
NEIGH = ["LIST.NEIGHBOR*IDS", "LIST.NEIGHBOR*BVALS", "LIST.NEIGHBOR*IVALS", "LIST.NEIGHBOR*FVALS"]
IO = ["INPUT.AVAILABLE", "INPUT.GET", "INPUT.NEXT", "INPUT.READ", "INPUT.STACKDEPTH", "OUTPUT.FLUSH", "OUTPUT.STACKDEPTH", "OUTPUT.WRITE"]


def graph_instrs(reg):
    return fam(reg, lambda n: n.startswith("GRAPH."))


# ---------------------------------------------------------------------------------------------
# plans of the instruction-level properties

def run_c04(ctx):
    q = ctx.tier == "quick"
    instrs = scalar_instrs(ctx.registry)
    mc_stage(ctx, "scalar", instrs, dict(IntVals=IP6 if q else IP10, FloatVals=FP7 if q else FP15, NameVals=["a", "b", "x y"],
                                          DInt=2, DFloat=2, DBool=2, DName=2))
    run_events(ctx, "rand_scalar", random_instr_cases(ctx, instrs, 30 if q else 1500, ctx.seed))
    if not q:
        # build-profile clause: the same cases in the optimised build
        pv.build_harness("release")
        mc_stage(ctx, "scalar_release", instrs, dict(IntVals=IP10, FloatVals=FP15, NameVals=["a", "b"], DInt=2, DFloat=2, DBool=2, DName=2), profile="release")
        run_events(ctx, "rand_scalar_release", random_instr_cases(ctx, instrs, 500, ctx.seed + 1), profile="release")


def run_c05(ctx):
    q = ctx.tier == "quick"
    reg = ctx.registry
    d = 3 if q else 4
    others = [n for n in stack_instrs(reg) if not n.startswith("INTEGER.")]
    mc_stage(ctx, "stack", others, dict(IntVals=IDX8, FloatVals=[F["one"], F["two"], F["nan"]], NameVals=["a", "b", "c"],
                                         CodePool="abc", VecPool="small", DInt=1, DFloat=d, DBool=d, DName=d, DCode=d, DExec=d, DVec=d))
    ints = [n for n in stack_instrs(reg) if n.startswith("INTEGER.")]
    mc_stage(ctx, "stack_int", ints, dict(IntVals=[-2147483648, -1, 0, 1, 2, 3, 2147483647] if not q else [-1, 0, 1, 2, 2147483647], DInt=d + 1))
    run_events(ctx, "rand_stack", random_instr_cases(ctx, stack_instrs(reg), 20 if q else 600, ctx.seed))


def run_c08(ctx):
    q = ctx.tier == "quick"
    instrs = code_instrs(ctx.registry)
    three = ["CODE.SUBST"]
    two = [n for n in instrs if n not in three]
    mc_stage(ctx, "code_trees", two, dict(CodePool="trees", IntVals=[-7, -1, 0, 1, 2, 3, 4, 5, 9] if not q else [-1, 0, 1, 3, 5], DInt=1, DCode=2, DExec=1, FloatVals=[F["one"]]))
    mc_stage(ctx, "code_pairs", two, dict(CodePool="pairs", IntVals=[-4, -1, 0, 1, 2, 3, 7] if not q else [0, 2], DInt=1, DCode=2, DExec=1, FloatVals=[F["one"]]))
    mc_stage(ctx, "code_subst", three, dict(CodePool="pairs", DCode=3, DInt=0))
    if not q:
        mc_stage(ctx, "code_subst_trees", three, dict(CodePool="trees", DCode=3, DInt=0))
    run_events(ctx, "rand_code", random_instr_cases(ctx, instrs, 30 if q else 1500, ctx.seed, small_ints=True))


def run_c09(ctx):
    q = ctx.tier == "quick"
    instrs = vector_instrs(ctx.registry)
    mc_stage(ctx, "vector", instrs, dict(VecPool="small" if q else "wide", IntVals=[-2147483648, -2, -1, 0, 1, 2, 3, 2147483647] if not q else [-2147483648, -1, 0, 1, 2, 2147483647],
                                          FloatVals=[F["zero"], F["one"], F["x15"], F["nan"]] if not q else [F["one"], F["nan"]], DVec=2, DInt=2, DFloat=2 if not q else 1, DBool=1))
    run_events(ctx, "rand_vector", random_instr_cases(ctx, instrs, 30 if q else 1500, ctx.seed, small_ints=True))
    run_events(ctx, "rand_vector_wide", random_instr_cases(ctx, instrs, 10 if q else 300, ctx.seed + 7))


def run_c19(ctx):
    q = ctx.tier == "quick"
    mc_stage(ctx, "listrec", LISTREC, dict(CodePool="one", VecPool="ids", IntVals=[5], FloatVals=[F["one"]], NameVals=["a"], DInt=2, DFloat=1, DBool=1, DName=1, DCode=1, DExec=1, DVec=1 if q else 2))
    mc_stage(ctx, "listval", LISTVAL, dict(CodePool="recs", IntVals=[-1, 0, 1, 2, 5] if not q else [-1, 0, 1, 5], DInt=2, DCode=2 if q else 3))
    run_events(ctx, "rand_list", random_instr_cases(ctx, LISTREC + LISTVAL, 60 if q else 3000, ctx.seed, small_ints=True))
    # LIST.GET followed by execution of the pushed record: chains of steps validated one by one
    g = gen.Gen(ctx.seed + 3, ctx.registry, small_ints=True)
    cases = []
    for i in range(100 if q else 3000):
        s = g.state(depth=3)
        ids = [g.r.choice([1, 2, 5, 6, 9, 10]) for _ in range(g.r.randint(1, 5))]
        s["ivec"] = [ids] + s["ivec"]
        s["exec"] = [{"k": "ins", "v": "LIST.ADD"}, {"k": "int", "v": 0}, {"k": "ins", "v": "LIST.GET"}]
        cases.append({"id": "roundtrip-%05d" % i, "pre": s, "acts": [{"a": "steps", "k": 12}]})
    run_events(ctx, "list_roundtrip", cases)


def run_c20_instr(ctx):
    q = ctx.tier == "quick"
    mc_stage(ctx, "neighbor_ids", NEIGH[:1], dict(IntVals=[-1, 0, 1, 2, 3, 8, 9, 27] if not q else [-1, 0, 1, 2, 9], DInt=3,
                                                   FloatVals=[F["zero"], F["one"], F["x15"], F["three"], F["nan"], F["mone"], F["inf"], F["h"]] if not q else [F["one"], F["x15"], F["nan"]], DFloat=1))
    mc_stage(ctx, "neighbor_vals", NEIGH[1:], dict(CodePool="recs", IntVals=[-1, 0, 1, 2, 9] if not q else [0, 1, 9], DInt=4,
                                                    FloatVals=[F["one"], F["x15"], F["nan"]] if not q else [F["x15"]], DFloat=1, DCode=1 if q else 2))


def run_c17_instr(ctx):
    q = ctx.tier == "quick"
    mc_stage(ctx, "io", IO, dict(VecPool="small", IntVals=IDX8, DInt=1, DVec=2))
    # INPUT / OUTPUT sequences over random message queues
    g = gen.Gen(ctx.seed + 11, ctx.registry, small_ints=True)
    cases = []
    for i in range(60 if q else 3000):
        s = g.state(depth=2)
        s["input"] = [g.msg() for _ in range(g.r.randint(0, 10))]
        s["output"] = [g.msg() for _ in range(g.r.randint(0, 3))]
        prog = []
        for _ in range(g.r.randint(3, 14)):
            k = g.r.random()
            if k < 0.75:
                prog.append({"k": "ins", "v": g.r.choice(IO)})
            elif k < 0.85:
                prog.append({"k": "int", "v": g.int()})
            elif k < 0.93:
                prog.append({"k": "bvec", "v": g.bvec(4)})
            else:
                prog.append({"k": "ivec", "v": [g.int() for _ in range(g.r.randint(0, 3))]})
        s["exec"] = prog
        cases.append({"id": "ioseq-%05d" % i, "pre": s, "acts": [{"a": "steps", "k": 20}]})
    run_events(ctx, "io_sequences", cases)


def run_c18_instr(ctx):
    q = ctx.tier == "quick"
    mc_stage(ctx, "graph", graph_instrs(ctx.registry), dict(IntVals=[-1, 0, 1, 2, 3, 10, 2147483647] if not q else [-1, 0, 1, 2, 3], FloatVals=[F["h"], F["nan"]] if not q else [F["h"]],
                                                             VecPool="small", DInt=3, DFloat=1, DVec=1))
    # random GRAPH.* programs: histories of graph instructions with valid, stale and bogus ids
    g = gen.Gen(ctx.seed + 5, ctx.registry, small_ints=True)
    gi = graph_instrs(ctx.registry)
    cases = []
    for i in range(40 if q else 2000):
        s = gen.empty_state()
        s["nid"] = g.r.randint(1, 4)
        prog = [{"k": "ins", "v": "GRAPH.ADD"}]
        for _ in range(g.r.randint(4, 30)):
            k = g.r.random()
            if k < 0.55:
                prog.append({"k": "ins", "v": g.r.choice(gi)})
            elif k < 0.85:
                prog.append({"k": "int", "v": g.r.randint(-1, 8)})
            elif k < 0.92:
                prog.append({"k": "float", "v": g.float()})
            elif k < 0.96:
                prog.append({"k": "ivec", "v": [g.r.randint(0, 8) for _ in range(g.r.randint(0, 3))]})
            else:
                prog.append({"k": "bvec", "v": g.bvec(3)})
        s["exec"] = prog
        cases.append({"id": "graphseq-%05d" % i, "pre": s, "acts": [{"a": "steps", "k": 40}]})
    run_events(ctx, "graph_sequences", cases)


def all_instr_groups(ctx, small=True):
    """every registered instruction with operand stacks of every depth (frame / crash sweeps)"""
    reg = ctx.registry
    groups = []
    many = set(LISTREC + NEIGH + ["GRAPH.NODE*STATESWITCH"])
    rest = [n for n in reg if n not in many]
    groups.append(("all", rest, dict(IntVals=[0, 2] if small else [-2147483648, 0, 2, 2147483647], FloatVals=[F["one"]] if small else [F["one"], F["nan"]], NameVals=["a"],
                                     CodePool="one" if small else "abc", VecPool="ids" if small else "small", DInt=3, DFloat=2 if small else 3, DBool=2, DName=2, DCode=3 if small else 2, DExec=3 if small else 2, DVec=2, Interp=True)))
    groups.append(("many", sorted(many), dict(IntVals=[1], FloatVals=[F["one"]], NameVals=["a"], CodePool="one", VecPool="ids", DInt=4, DFloat=1, DBool=1, DName=1, DCode=1, DExec=1, DVec=1)))
    return groups


def run_c10(ctx):
    q = ctx.tier == "quick"
    for tag, instrs, pools in all_instr_groups(ctx, small=q):
        mc_stage(ctx, tag, instrs, pools)
    run_events(ctx, "rand_programs", random_program_cases(ctx, 60 if q else 4000, ctx.seed))
    run_events(ctx, "rand_instr", random_instr_cases(ctx, ctx.registry, 4 if q else 150, ctx.seed + 2))


def run_c01(ctx):
    q = ctx.tier == "quick"
    for tag, instrs, pools in all_instr_groups(ctx, small=q):
        mc_stage(ctx, tag, instrs, pools)
    run_events(ctx, "rand_programs", random_program_cases(ctx, 150 if q else 10000, ctx.seed))
    run_events(ctx, "rand_instr", random_instr_cases(ctx, ctx.registry, 6 if q else 300, ctx.seed + 2))
    if not q:
        pv.build_harness("release")
        run_events(ctx, "rand_programs_release", random_program_cases(ctx, 3000, ctx.seed + 9), profile="release")
        run_events(ctx, "rand_instr_release", random_instr_cases(ctx, ctx.registry, 100, ctx.seed + 4), profile="release")


PLANS = {
    "C01": dict(run=run_c01, judge=dict(owns_crash=True), rule="a case = (program, initial state); non-trivial = the recorded step reached an instruction or unpacked a list"),
    "C04": dict(run=run_c04),
    "C05": dict(run=run_c05),
    "C08": dict(run=run_c08),
    "C09": dict(run=run_c09),
    "C10": dict(run=run_c10, judge=dict(frame=True)),
    "C19": dict(run=run_c19),
}


# ---------------------------------------------------------------------------------------------
# finishing: replay files, output lines, evidence

def write_replay(ctx, stage, v, kind, k):
    os.makedirs(os.path.join(pv.OUT, "replay"), exist_ok=True)
    e = pv.event_at(ctx.paths[stage], v["chunk"], v["l"])
    path = os.path.join(pv.OUT, "replay", "%s-%03d.json" % (ctx.pid, k))
    rep = {"property": ctx.pid, "kind": kind, "stage": stage, "verdict": v["j"],
           "case": {"id": e.get("id"), "pre": e.get("pre"), "acts": [e.get("act")]} if "api" not in e else e,
           "observed": e.get("post"), "ret": e.get("ret"), "seed": ctx.seed, "tier": ctx.tier,
           "repo_head": pv.run(["git", "-C", pv.REPO, "rev-parse", "HEAD"]).stdout.strip()}
    json.dump(rep, open(path, "w"), indent=1)
    return path


def finish(ctx, plan, viol, known, wall):
    findings = stages.load_findings()
    for fid, n in known.items():
        print("KNOWN-FINDING: property=%s %s %s (%d events)" % (ctx.pid, fid, findings[fid]["what"], n))
    seen, k = set(), 0
    for stage, v, kind in viol:
        key = (v["j"].get("subj"), kind, tuple(v["j"].get("fields", [])), tuple(v["j"].get("frame", [])))
        if key in seen and k >= 5:
            continue
        seen.add(key)
        if k < 25:
            path = write_replay(ctx, stage, v, kind, k)
            print("VIOLATION property=%s replay=%s" % (ctx.pid, path))
            print("  %s %s subject=%s fields=%s frame=%s %s" % (stage, kind, v["j"].get("subj"), v["j"].get("fields"), v["j"].get("frame"), v["j"].get("msg", "")[:200]))
        k += 1
    st = ctx.stats
    ev = {"property_id": ctx.pid, "tier": ctx.tier, "seed": ctx.seed, "level": "model_checking",
          "coverage": {"states": st["states"], "transitions": st["transitions"],
                       "traces_validated_against_impl": st["events"],
                       "samples": ctx.samples or [{"note": "no events"}],
                       "replay_cases": st["cases_replayed"], "events_validated": st["events"],
                       "foreign_mismatches": st["foreign_mismatches"], "left_envelope": st["envelope"],
                       "known_findings_hit": dict(known), "tlc_runs": st["tlc_runs"], "stages": st["stages"],
                       "exhaustive": False,
                       "explanation": "states/transitions: TLC on the bounded one-step models; every explored case replayed on the real code and every recorded event validated by TLC against the specification"},
          "assumptions": ["TLC 1.8.0 evaluates the specification correctly", "project/build of the harness are faithful (checked: project(build(pre)) is compared with pre by the trace specification)",
                          "hooks: node-id counter accessors under cfg(pushr_verif)"],
          "wall_s": round(wall, 1), "violations": len(viol)}
    if plan.get("rule"):
        ev["coverage"]["rule"] = plan["rule"]
    os.makedirs(os.path.join(pv.VERIF, "evidence"), exist_ok=True)
    json.dump(ev, open(os.path.join(pv.VERIF, "evidence", ctx.pid + ".json"), "w"), indent=1)
    print("%s %s: %d TLC states, %d events validated, %d violations, %d known-finding kinds, %.0fs" % (ctx.pid, ctx.tier, st["states"], st["events"], len(viol), len(known), wall))
    return 1 if viol else 0


def replay(ctx, path):
    rep = json.load(open(path))
    case = rep["case"]
    plan = PLANS[ctx.pid]
    n = run_events(ctx, "replay", [case], spec=rep.get("spec", "Trace"))
    viol, known = stages.judge(ctx, **plan.get("judge", {}))
    for stage, v in ctx.verdicts:
        print("verdict:", json.dumps(v["j"]))
    if not ctx.verdicts:
        print("replay: every event accepted by the specification (%d events)" % n)
    for stage, v, kind in viol:
        print("VIOLATION property=%s replay=%s" % (ctx.pid, path))
    return 1 if viol else 0
