"""Per-property plans: which bounded models TLC explores, which drivers record the real code,
and which of TLC's verdicts count for the property (verdict ownership, DESIGN.md section 5)."""
import shutil, re
import json, os, re, time
import pv, stages, gen
from stages import F, mc_stage, run_events, random_program_cases, random_instr_cases

IP10 = [-2147483648, -2147483647, -2, -1, 0, 1, 2, 3, 2147483646, 2147483647]
IP6 = [-2147483648, -1, 0, 1, 2, 2147483647]
IDX8 = [-2147483648, -1, 0, 1, 2, 3, 4, 2147483647]
# 1065353217 is the float next to 1.0, 1036831950 the one next to 0.1 (comparisons are exact, never "close enough")
FP15 = [F[k] for k in ("zero", "nzero", "one", "mone", "h", "x15", "m25", "three", "tiny", "big", "inf", "ninf", "nan", "tenth", "max")] + [1065353217, 1036831950, 1070141403, -1077342245]
# 1070141403 = pi/2 as a float, -1077342245 = -pi/2, 1083624420 = 3 pi/2 (values next to which a guarded function may cut out)
FP7 = [F[k] for k in ("zero", "nzero", "one", "m25", "h", "inf", "nan")] + [1065353217, 1070141403]

GENERIC_OPS = ("DUP", "POP", "FLUSH", "SWAP", "ROT", "YANK", "YANKDUP", "SHOVE", "STACKDEPTH", "ID", "DEFINE")
NINE = ("BOOLEAN", "INTEGER", "FLOAT", "NAME", "CODE", "EXEC", "BOOLVECTOR", "INTVECTOR", "FLOATVECTOR")


def is_stackop(n):
    t, _, op = n.partition(".")
    return t in NINE and op in GENERIC_OPS


def fam(reg, pred):
    return [n for n in reg if pred(n)]


def scalar_instrs(reg):
    return fam(reg, lambda n: n.split(".")[0] in ("BOOLEAN", "INTEGER", "FLOAT", "NAME") and not is_stackop(n)
               and not n.endswith("RAND") and n != "NAME.RANDBOUNDNAME") + ["CODE.FROMBOOLEAN", "CODE.FROMFLOAT", "CODE.FROMINTEGER", "CODE.FROMNAME"]


def stack_instrs(reg):
    return fam(reg, lambda n: is_stackop(n) and not n.endswith(".DEFINE"))


CONTROL = ["CODE.DO", "CODE.DO*", "CODE.IF", "CODE.LOOP", "CODE.QUOTE", "INTVECTOR.LOOP", "NOOP", "CODE.NOOP",
           "EXEC.=", "EXEC.IF", "EXEC.K", "EXEC.S", "EXEC.Y", "EXEC.LOOP",
           "INDEX.CURRENT", "INDEX.DEFINE", "INDEX.DESTINATION", "INDEX.FLUSH", "INDEX.INCREASE", "INDEX.POP"]
NAMES_FAM = lambda reg: fam(reg, lambda n: n.endswith(".DEFINE")) + ["CODE.DEFINITION", "NAME.QUOTE"]


def code_instrs(reg):
    skip = set(CONTROL) | {"CODE.DEFINITION", "CODE.RAND", "CODE.FROMBOOLEAN", "CODE.FROMFLOAT", "CODE.FROMINTEGER", "CODE.FROMNAME"}
    return fam(reg, lambda n: n.startswith("CODE.") and not is_stackop(n) and n not in skip)


def vector_instrs(reg):
    return fam(reg, lambda n: "VECTOR." in n and not is_stackop(n) and not n.endswith(".RAND") and n != "INTVECTOR.LOOP")


UMLAUT_INSTR = "VERIF.N\xd6\xd6P*MIT*UML\xc4UTEN*\xdcBER*DREIUNDZWANZIG*BYTES"     # a custom instruction with a non-ASCII name (harness)
CUSTOM_INSTRS = ["VERIF.PROBE", "VERIF.NOOP*WITH*A*NAME*LONGER*THAN*ANY*BUILTIN*INSTRUCTION", UMLAUT_INSTR, "VERIF." + "\u00c4\u00d6\u00dc*" * 12 + "NOOP", "VERIF.MyInstruction", "VERIFSQUARE", "verif.lower", "2VERIF", "424242", "4.25", "BOOL[1,0]", "INT[7", "integer.max", "Float.<", "name.cat", "intvector.sum", "VERIF.EARLY"]
CUSTOM_TREE = CUSTOM_INSTRS[:10] + CUSTOM_INSTRS[12:]      # (a name shaped like a vector literal prints as that literal: outside C11's domain)
RAND = ["BOOLEAN.RAND", "INTEGER.RAND", "FLOAT.RAND", "NAME.RAND", "NAME.RANDBOUNDNAME", "BOOLVECTOR.RAND", "INTVECTOR.RAND", "FLOATVECTOR.RAND"]
LISTREC = ["LIST.ADD", "LIST.SET"]
LISTVAL = ["LIST.REMOVE", "LIST.GET", "LIST.BVAL", "LIST.IVAL", "LIST.FVAL"]
NEIGH = ["LIST.NEIGHBOR*IDS", "LIST.NEIGHBOR*BVALS", "LIST.NEIGHBOR*IVALS", "LIST.NEIGHBOR*FVALS"]
IO = ["INPUT.AVAILABLE", "INPUT.GET", "INPUT.NEXT", "INPUT.READ", "INPUT.STACKDEPTH", "OUTPUT.FLUSH", "OUTPUT.STACKDEPTH", "OUTPUT.WRITE"]


def graph_instrs(reg):
    return fam(reg, lambda n: n.startswith("GRAPH."))


# ---------------------------------------------------------------------------------------------
# plans of the instruction-level properties

def run_c04(ctx):
    q = ctx.tier == "quick"
    instrs = scalar_instrs(ctx.registry)
    mc_stage(ctx, "scalar", instrs, dict(IntVals=IP6 if q else IP10, FloatVals=FP7 if q else FP15, NameVals=["a", "b", "x y", "INTEGER.+"],
                                          DInt=2, DFloat=2, DBool=2, DName=2))
    run_events(ctx, "rand_scalar", random_instr_cases(ctx, instrs, 30 if q else 5000, ctx.seed))
    # NAME instructions on long names (every length class around powers of two)
    cs = []
    for i, (la, lb) in enumerate([(1, 1), (100, 200), (2047, 2048), (2048, 2048), (4095, 1), (4096, 4096), (5000, 3), (3, 9000)] if q else
                                 [(a, b) for a in (1, 255, 1023, 2047, 2048, 4095, 4096, 8191, 20000) for b in (1, 2, 2048, 4097)]):
        for name in ("NAME.CAT", "NAME.=", "NAME.DUP", "NAME.SWAP"):
            s = gen.empty_state()
            s["name"] = ["y" * lb, "x" * la, "z"]
            s["exec"] = [ins(name)]
            cs.append({"id": "longname-%03d-%s" % (i, name), "pre": s, "acts": [{"a": "step"}]})
    run_events(ctx, "long_names", cs)
    run_events(ctx, "multibyte_names", long_name_cases(ctx, q))
    if not q:
        # build-profile clause: the same cases in the optimised build
        pv.build_harness("release")
        mc_stage(ctx, "scalar_release", instrs, dict(IntVals=IP10, FloatVals=FP15, NameVals=["a", "b"], DInt=2, DFloat=2, DBool=2, DName=2), profile="release")
        run_events(ctx, "rand_scalar_release", random_instr_cases(ctx, instrs, 500, ctx.seed + 1), profile="release")


def run_c05(ctx):
    q = ctx.tier == "quick"
    reg = ctx.registry
    d = 3 if q else 4
    others = [n for n in stack_instrs(reg) if not n.startswith("INTEGER.")]
    mc_stage(ctx, "stack", others, dict(IntVals=IDX8, FloatVals=[F["one"], F["two"], F["nan"]], NameVals=["a", "b", "c"],
                                         CodePool="abc", VecPool="small", DInt=1, DFloat=d, DBool=d, DName=d, DCode=d, DExec=d, DVec=d))
    big = [n for n in stack_instrs(reg) if n.startswith(("CODE.", "EXEC."))]
    mc_stage(ctx, "stack_big", big, dict(IntVals=[-1, 0, 1, 2], CodePool="big", DInt=1, DCode=2 if q else 3, DExec=2 if q else 3))
    ints = [n for n in stack_instrs(reg) if n.startswith("INTEGER.")]
    mc_stage(ctx, "stack_int", ints, dict(IntVals=[-2147483648, -1, 0, 1, 2, 3, 2147483647] if not q else [-1, 0, 1, 2, 2147483647], DInt=d + 1))
    run_events(ctx, "rand_stack", random_instr_cases(ctx, stack_instrs(reg), 20 if q else 1500, ctx.seed))
    # the same instructions executed from inside a running loop (continuation on EXEC, counter on INDEX)
    run_events(ctx, "in_loops", flush_in_loop_cases(ctx))


def points_of(t):
    out = [t]
    if t["k"] == "list":
        for c in t["v"]:
            out.extend(points_of(c))
    return out


# floats that print alike ("0.250", "0.000", "-0.000") without being equal, and floats that are equal without
# printing alike (0.0 / -0.0), NaN (never equal to itself)
ALIKE = [gen.f2b(0.25), gen.f2b(0.25) + 1, gen.f2b(0.2502), 0, -2147483648, gen.f2b(1e-8), gen.f2b(-1e-8), 2143289344, gen.f2b(1.0)]


def nested_tree(g, points, depth=0, floats=False):
    """plain trees that nest lists inside lists (so that indices behind nested siblings are exercised)"""
    r = g.r
    if points <= 1 or depth > 4:
        if floats and r.random() < 0.5:
            return {"k": "float", "v": r.choice(ALIKE)} if r.random() < 0.8 else {"k": "fvec", "v": [r.choice(ALIKE) for _ in range(r.randint(0, 2))]}
        k = r.random()
        if k < 0.5: return {"k": "int", "v": r.randint(0, 9)}
        if k < 0.7: return {"k": "id", "v": r.choice(["a", "b", "c"])}
        if k < 0.85: return {"k": "ins", "v": r.choice(["NOOP", "INTEGER.+", "CODE.DUP"])}
        if k < 0.93: return {"k": "bool", "v": r.random() < 0.5}
        return {"k": "list", "v": []}
    rest, kids = points - 1, []
    while rest > 0:
        k = r.randint(1, rest) if r.random() < 0.6 else 1
        kids.append(nested_tree(g, k, depth + 1, floats)); rest -= k
    return {"k": "list", "v": kids}


def code_point_cases(ctx, n):
    """CODE list-surgery instructions on (tree, sub-item of that tree) pairs, so that searches really match"""
    g = gen.Gen(ctx.seed + 17, ctx.registry, small_ints=True)
    cases = []
    for i in range(n):
        fl = i % 3 == 2
        t = nested_tree(g, g.r.randint(2, 16), floats=fl)
        pts = points_of(t)
        k = g.r.randrange(len(pts))
        needle = pts[k] if g.r.random() < 0.85 else nested_tree(g, g.r.randint(1, 3), floats=fl)
        if fl and g.r.random() < 0.6:       # a needle that differs from a point of the tree in one float only
            fpts = [x for x in pts if x["k"] == "float"]
            if fpts:
                victim = g.r.choice(fpts)
                needle = json.loads(json.dumps(needle if needle["k"] == "list" and g.r.random() < 0.5 else victim))
                def swap(x):
                    if x["k"] == "float":
                        x["v"] = g.r.choice(ALIKE)
                    elif x["k"] == "list" and x["v"]:
                        swap(g.r.choice(x["v"]))
                swap(needle)
        repl = nested_tree(g, g.r.randint(1, 3))
        if i % 5 == 4:      # related operands: the pattern wraps the substitute, the target holds a wrapped pattern
            def wrap(x):
                sib = [nested_tree(g, 1) for _ in range(g.r.randint(0, 2))]
                k2 = g.r.randint(0, len(sib))
                return {"k": "list", "v": sib[:k2] + [x] + sib[k2:]}
            wrapper_seed = g.r.randint(0, 10 ** 9)
            def ctx(x):       # the same context applied to different fillers
                st = g.r.getstate(); g.r.seed(wrapper_seed); out = wrap(x); g.r.setstate(st); return out
            repl = nested_tree(g, g.r.randint(1, 2))
            needle = ctx(repl)
            t = wrap(wrap(ctx(needle))) if g.r.random() < 0.5 else {"k": "list", "v": [ctx(needle), needle, ctx(ctx(needle))]}
            pts = points_of(t); k = g.r.randrange(len(pts))
        for name, code, ints in (("CODE.POSITION", [t, needle], []), ("CODE.CONTAINER", [t, needle], []), ("CODE.CONTAINS", [t, needle], []),
                                 ("CODE.MEMBER", [needle, t], []), ("CODE.SUBST", [t, repl, needle], []),
                                 ("CODE.EXTRACT", [t], [g.r.choice([k, k, -k, k + len(pts), g.r.randint(-40, 40)])]),
                                 ("CODE.INSERT", [t, repl], [g.r.choice([k, k, g.r.randint(0, len(pts) - 1)])]),
                                 ("CODE.NTH", [t], [g.r.randint(-10, 20)]), ("CODE.DISCREPANCY", [t, needle if needle["k"] == "list" else repl], []),
                                 ("CODE.SIZE", [t], []), ("CODE.CDR", [t], []), ("CODE.CAR", [t], []), ("CODE.CONS", [t, needle], []), ("CODE.=", [t, needle], []),
                                 ("CODE.=", [t, json.loads(json.dumps(t))], []), ("CODE.DISCREPANCY", [t, json.loads(json.dumps(t))], []), ("CODE.CONTAINS", [t, json.loads(json.dumps(t))], [])):
            s = gen.empty_state()
            s["code"] = code + [{"k": "id", "v": "below"}]
            s["int"] = ints + [777]
            s["exec"] = [ins(name)]
            cases.append({"id": "pt-%05d-%s" % (i, name), "pre": s, "acts": [{"a": "step"}]})
    return cases


def run_c08(ctx):
    q = ctx.tier == "quick"
    instrs = code_instrs(ctx.registry)
    # the equations of C08 on the specification's item algebra, for all trees up to a bound (laws E1-E8)
    cfg = 'SPECIFICATION Spec\nCONSTANTS\n MaxT = %d\n MaxU = %d\nINVARIANTS E1 E2 E3 E4 E5 E6 E7 E8\nCHECK_DEADLOCK FALSE\n' % ((4, 2) if q else (5, 3))
    _, st = pv.run_tlc_model("MC_ItemLaws", cfg, ctx.work, workers=10, tag="mc_itemlaws")
    if "error" in st:
        raise pv.ToolError("TLC failed on MC_ItemLaws:\n" + st["error"])
    ctx.stats["states"] += st["states"]; ctx.stats["transitions"] += st["transitions"]; ctx.stats["tlc_runs"].append(st)
    three = ["CODE.SUBST"]
    two = [n for n in instrs if n not in three]
    mc_stage(ctx, "code_trees", two, dict(CodePool="trees", IntVals=[-7, -1, 0, 1, 2, 3, 4, 5, 9] if not q else [-1, 0, 1, 3, 5], DInt=1, DCode=2, DExec=1, FloatVals=[F["one"]]))
    mc_stage(ctx, "code_pairs", two, dict(CodePool="pairs", IntVals=[-4, -1, 0, 1, 2, 3, 7] if not q else [0, 2], DInt=1, DCode=2, DExec=1, FloatVals=[F["one"]]))
    mc_stage(ctx, "code_subst", three, dict(CodePool="pairs", DCode=3, DInt=0))
    if not q:
        mc_stage(ctx, "code_subst_trees", three, dict(CodePool="trees", DCode=3, DInt=0))
    run_events(ctx, "rand_code", random_instr_cases(ctx, instrs, 30 if q else 5000, ctx.seed, small_ints=True))
    run_events(ctx, "code_points", code_point_cases(ctx, 150 if q else 20000))
    # the same instructions on small operands while the CODE stack holds hundreds of points in unrelated items below them
    # (a state re-used for several programs): what lies below the operands does not matter
    I = lambda v: {"k": "int", "v": v}
    ballast = [lst([I(j) for j in range(60)]), lst([lst([I(j), {"k": "id", "v": "w%d" % j}]) for j in range(30)]), lst([I(1)] * 99), I(5)]
    cs = []
    gq = gen.Gen(ctx.seed + 23, ctx.registry, small_ints=True)
    for name in instrs:
        for j in range(2 if q else 12):
            s = gen.empty_state()
            a, b, c = nested_tree(gq, gq.r.randint(1, 6)), nested_tree(gq, gq.r.randint(1, 6)), nested_tree(gq, gq.r.randint(1, 4))
            if j % 2:
                b = gq.r.choice(points_of(a))
            s["code"] = [a, b, c] + ballast
            s["int"] = [gq.r.randint(-2, 8), 1, 0]; s["bool"] = [True]; s["name"] = ["a"]
            s["exec"] = [ins(name), a, b]
            cs.append({"id": "crowded-%s-%d" % (name, j), "pre": s, "acts": [{"a": "step"}]})
    run_events(ctx, "crowded_code_stack", cs)
    # atoms whose printed form is long (vectors of 17 ... 40 elements that differ only near their end), infinite floats
    cs = []
    fb = gen.f2b
    for k, n in enumerate((16, 17, 20, 40)):
        for kind, mk in (("ivec", lambda j: j), ("fvec", lambda j: fb(float(j))), ("bvec", lambda j: j % 2 == 0)):
            a = {"k": kind, "v": [mk(j) for j in range(n)]}
            b = {"k": kind, "v": [mk(j) for j in range(n - 1)] + [mk(n + 5)]}
            for name in instrs:
                s = gen.empty_state()
                s["code"] = [lst([I(1), a]), lst([I(1), b]), a]
                s["int"] = [1, 0]; s["exec"] = [ins(name), lst([a]), lst([b])]
                cs.append({"id": "longatom-%d-%s-%s" % (n, kind, name), "pre": s, "acts": [{"a": "step"}]})
    for name in instrs:
        for k, (x, y) in enumerate(((fb(float("inf")), fb(float("inf"))), (fb(float("-inf")), fb(float("inf"))), (fb(1e-8), fb(2e-8)), (fb(3.4028235e38), fb(float("inf"))))):
            s = gen.empty_state()
            fx, fy = {"k": "float", "v": x}, {"k": "float", "v": y}
            s["code"] = [fx, lst([I(1), fy, lst([fx])]), fy] if k % 2 == 0 else [lst([I(1), fy, lst([fx])]), fx, fy]
            s["int"] = [2, 1]; s["exec"] = [ins(name), fx, fy]
            cs.append({"id": "inffloat-%d-%s" % (k, name), "pre": s, "acts": [{"a": "step"}]})
    run_events(ctx, "long_atoms_and_infinities", cs)
    # the Item functions themselves (API level)
    g = gen.Gen(ctx.seed + 19, ctx.registry, small_ints=True)
    ops = []
    for i in range(200 if q else 30000):
        t = nested_tree(g, g.r.randint(1, 14)); pts = points_of(t); k = g.r.randrange(len(pts))
        needle = pts[k] if g.r.random() < 0.8 else nested_tree(g, 2)
        repl = nested_tree(g, g.r.randint(1, 3))
        ops += [{"m": "size", "args": [t]}, {"m": "shallow_size", "args": [t]}, {"m": "traverse", "args": [t, g.r.choice([k, len(pts), len(pts) + 3])]},
                {"m": "insert", "args": [t, repl, g.r.choice([k, k, len(pts) + 1])]}, {"m": "contains", "args": [t, needle]}, {"m": "container", "args": [t, needle]},
                {"m": "substitute", "args": [t, needle, repl]}, {"m": "equals", "args": [t, needle]}, {"m": "shallow_eq", "args": [t, needle]}, {"m": "to_string", "args": [t]},
                {"m": "contains", "args": [t, needle, g.r.choice([1, 2, 7])]}, {"m": "find", "args": [t, needle, 0, g.r.randint(0, 6)]}, {"m": "find", "args": [t, g.r.choice([{"k": "int", "v": 0}, {"k": "bool", "v": True}, {"k": "float", "v": 0}, {"k": "list", "v": []}]), g.r.randint(0, 2), g.r.randint(0, 5)]}]
    cs = [{"id": "itemapi-%03d" % j, "api": "item", "ops": ops[j:j + 500]} for j in range(0, len(ops), 500)]
    run_events(ctx, "item_api", cs, spec="TraceApi")


def vector_sequence_cases(ctx, n):
    """histories of vector instructions on evolving vectors (sets built by SET*INSERT, APPEND / REMOVE / SORT /
    ROTATE chains, element-wise operations on the results)"""
    g = gen.Gen(ctx.seed + 27, ctx.registry, small_ints=True)
    vi = [x for x in vector_instrs(ctx.registry)] + ["INTVECTOR.DUP", "FLOATVECTOR.DUP", "BOOLVECTOR.DUP", "INTVECTOR.SWAP"]
    cases = []
    for i in range(n):
        s = gen.empty_state()
        prog = []
        mode = g.r.random()
        for _ in range(g.r.randint(15, 60)):
            k = g.r.random()
            if mode < 0.35 and k < 0.7:        # set building
                prog += [{"k": "int", "v": g.r.randint(-3, 14)}, ins(g.r.choice(["INTVECTOR.SET*INSERT", "INTVECTOR.SET*INSERT", "INTVECTOR.APPEND", "INTVECTOR.REMOVE"]))]
            elif k < 0.5:
                prog.append(ins(g.r.choice(vi)))
            elif k < 0.75:
                prog.append({"k": "int", "v": g.r.randint(-4, 9)})
            elif k < 0.85:
                prog.append({"k": "float", "v": g.float()})
            elif k < 0.9:
                prog.append({"k": "bool", "v": g.r.random() < 0.5})
            else:
                prog.append(g.r.choice([{"k": "ivec", "v": g.ivec()}, {"k": "fvec", "v": g.fvec()}, {"k": "bvec", "v": g.bvec()}]))
        s["exec"] = prog
        cases.append({"id": "vecseq-%05d" % i, "pre": s, "acts": [{"a": "steps", "k": 150}]})
    return cases


def long_vector_cases(ctx, n_each, seed):
    """vector instructions on vectors of 21..200 elements (block sizes, sort thresholds), NaNs and repeated
    values mixed in, all-false / all-true stretches in the boolean ones, three vectors deep"""
    g = gen.Gen(seed, ctx.registry, small_ints=True)
    r = g.r
    vi = [x for x in vector_instrs(ctx.registry)] + [x for x in stack_instrs(ctx.registry) if "VECTOR." in x]
    def L():
        return r.choice([21, 22, 31, 32, 33, 63, 64, 65, 70, 100, 127, 128, 129, 200])
    def fv(n):
        mode = r.random()
        return [(2143289344 if r.random() < 0.25 else gen.f2b(r.randint(-40, 40) / 4.0)) if mode < 0.6 else gen.f2b(float(i % 7)) for i in range(n)]
    def bv(n):
        mode = r.random()
        if mode < 0.25:      # a few TRUE bits after long FALSE stretches
            hot = set(r.sample(range(n), min(n, r.randint(0, 3))))
            return [i in hot for i in range(n)]
        if mode < 0.5:       # whole blocks of 8 / 32 / 64 FALSE before the first TRUE
            first = r.choice([8, 32, 64, 65, 70, 128, 129]) % max(1, n)
            return [i == first or (i > first and r.random() < 0.2) for i in range(n)]
        if mode < 0.6:
            return [i % 64 == 63 or i >= n - 2 for i in range(n)]
        return [r.random() < 0.5 for _ in range(n)]
    def iv(n):
        return [r.randint(-5, 30) if r.random() < 0.8 else g.int() for _ in range(n)]
    cases = []
    for name in vi:
        for i in range(n_each * (6 if ("SORT" in name or "INDEX" in name or "COUNT" in name) else 1)):
            s = gen.empty_state()
            s["fvec"] = [fv(L()), fv(L()), fv(r.randint(0, 3))]
            s["bvec"] = [bv(L()), bv(L()), bv(r.randint(0, 3))]
            s["ivec"] = [iv(L()), iv(L()), iv(r.randint(0, 3))]
            s["int"] = [r.choice([0, 1, 20, 63, 64, 65, -1, 130]), r.choice([0, 5, 64, 100]), r.randint(-3, 70)]
            s["float"] = [g.float(), gen.f2b(2.0)]
            s["bool"] = [True, False]
            s["exec"] = [ins(name)]
            cases.append({"id": "longvec-%s-%d" % (name, i), "pre": s, "acts": [{"a": "step"}]})
    return cases


def long_name_cases(ctx, q):
    """NAME instructions on long names whose characters take 1, 2, 3 or 4 bytes (byte-length thresholds never
    fall on a character boundary for all of them), plus programs that double a name step by step"""
    cs = []
    names = [n for n in ctx.registry if n.startswith("NAME.") and not n.endswith("RAND") and n != "NAME.RANDBOUNDNAME"]
    grid = [(100, 1), (5000, 6000), (8191, 1), (2730, 9000)] if q else [(a, b) for a in (1, 100, 2047, 2730, 4096, 5461, 8191, 8192, 10000, 20000) for b in (1, 3000, 6000, 9000)]
    for ch in ["x", "\u00e9", "\u20ac", "\U0001d11e"]:
        for (la, lb) in grid:
            for name in names:
                s = gen.empty_state()
                s["name"] = [ch * lb, ch * la, "z"]
                s["int"] = [1, 0]
                s["exec"] = [ins(name)]
                cs.append({"id": "mbname-%x-%d-%d-%s" % (ord(ch), la, lb, name), "pre": s, "acts": [{"a": "step"}]})
        s = gen.empty_state()
        s["exec"] = [{"k": "id", "v": ch}] + [ins("NAME.DUP"), ins("NAME.CAT")] * (15 if q else 17)
        cs.append({"id": "doubling-%x" % ord(ch), "pre": s, "acts": [{"a": "steps", "k": 40}]})
    return cs


def run_c09(ctx):
    q = ctx.tier == "quick"
    instrs = vector_instrs(ctx.registry)
    mc_stage(ctx, "vector", instrs, dict(VecPool="small" if q else "wide", IntVals=[-2147483648, -2, -1, 0, 1, 2, 3, 2147483647] if not q else [-2147483648, -1, 0, 1, 2, 2147483647],
                                          FloatVals=[F["zero"], F["one"], F["x15"], F["nan"]] if not q else [F["one"], F["nan"]], DVec=2, DInt=2, DFloat=2 if not q else 1, DBool=1))
    run_events(ctx, "rand_vector", random_instr_cases(ctx, instrs, 30 if q else 1500, ctx.seed, small_ints=True))
    run_events(ctx, "rand_vector_wide", random_instr_cases(ctx, instrs, 10 if q else 300, ctx.seed + 7))
    run_events(ctx, "vector_sequences", vector_sequence_cases(ctx, 60 if q else 3000))
    run_events(ctx, "long_vectors", long_vector_cases(ctx, 3 if q else 60, ctx.seed + 29))
    run_events(ctx, "aba_triples", aba_cases(ctx, instrs, 2 if q else 40, ctx.seed + 33))
    # the operands on top of DEEP stacks (a dozen unrelated vectors, integers, floats below them): what lies below does not matter
    g2 = gen.Gen(ctx.seed + 37, ctx.registry, small_ints=True)
    cs = []
    for c in random_instr_cases(ctx, instrs, 2 if q else 30, ctx.seed + 35, prefix="deepstack", small_ints=True):
        s = c["pre"]
        for f, mk in (("bvec", lambda: g2.bvec(3)), ("ivec", lambda: g2.ivec(3)), ("fvec", lambda: [gen.f2b(float(g2.r.randint(-4, 4))) for _ in range(g2.r.randint(0, 3))]),
                      ("int", lambda: g2.r.randint(-3, 9)), ("float", lambda: gen.f2b(g2.r.randint(-8, 8) / 4.0)), ("bool", lambda: g2.r.random() < 0.5)):
            s[f] = s[f][:3] + [mk() for _ in range(12)]
        cs.append(c)
    run_events(ctx, "deep_stacks", cs)
    # results of up to a hundred thousand elements (lengths around 2^16; the envelope of C01 is widened for this stage)
    cs = []
    fb = gen.f2b
    for n in ((65535, 65536, 70000) if q else (2001, 32767, 32768, 65535, 65536, 65537, 70000, 100000, 131072)):
        for name in ("BOOLVECTOR.ONES", "INTVECTOR.ZEROS", "FLOATVECTOR.ONES", "FLOATVECTOR.SINE", "INTVECTOR.FROMINT") if q else \
                ("BOOLVECTOR.ONES", "BOOLVECTOR.ZEROS", "INTVECTOR.ONES", "INTVECTOR.ZEROS", "FLOATVECTOR.ONES", "FLOATVECTOR.ZEROS", "FLOATVECTOR.SINE", "BOOLVECTOR.RAND", "INTVECTOR.RAND", "FLOATVECTOR.RAND"):
            if name not in ctx.registry:
                continue
            s = gen.empty_state()
            s["int"] = [n, 0, 9, 4]; s["float"] = [fb(0.5), fb(1.0), fb(0.25), fb(2.0)]
            s["exec"] = [ins(name), ins(name.split(".")[0] + ".LENGTH")]
            cs.append({"id": "longres-%d-%s" % (n, name), "pre": s, "acts": [{"a": "steps", "k": 2}]})
    run_events(ctx, "long_results", cs, env={"PV_ENV_SIZE": "200000"})
    # sums and means whose partial sums leave the range in which every integer is a float
    cs = []
    for k, v in enumerate([[16777216, 1, 1], [1, 1, 16777216], [16777217, 16777217], [33554432, 3, 1, 0], [-16777216, -1, -1], [2147483647, -2147483647, 9, 9, 9],
                           [5, 5, 5, 5], [16777215, 16777215, 16777215], [100000000, 100000001, 100000001]]):
        for name in ("INTVECTOR.MEAN", "INTVECTOR.SUM"):
            s = gen.empty_state(); s["ivec"] = [v, [1]]; s["exec"] = [ins(name)]
            cs.append({"id": "bigmean-%d-%s" % (k, name), "pre": s, "acts": [{"a": "step"}]})
    run_events(ctx, "big_sums", cs)


def aba_cases(ctx, instrs, n_each, seed):
    """every instruction on operands A, then on other operands B, then on A again (consecutive cases share the
    executor process and its instruction set): the third result must be the first"""
    g = gen.Gen(seed, ctx.registry, small_ints=True)
    cases = []
    for name in instrs:
        for i in range(n_each):
            a, b = g.state(depth=3), g.state(depth=3)
            for s in (a, b):
                s["int"] = [g.r.randint(1, 9), g.r.randint(0, 5), g.r.randint(1, 4)] + s["int"]
                s["float"] = [gen.f2b(g.r.choice([0.5, 1.0, 2.0, 0.25])), gen.f2b(g.r.choice([0.0, 1.0, 3.0])), gen.f2b(g.r.choice([1.0, 2.0, 0.5, 4.0]))] + s["float"]
                s["bvec"] = [g.bvec(), g.bvec()] + s["bvec"]; s["ivec"] = [g.ivec(), g.ivec()] + s["ivec"]; s["fvec"] = [g.fvec(), g.fvec()] + s["fvec"]
                s["bool"] = [True] + s["bool"]
                s["exec"] = [ins(name)]
            if a["int"][:3] == b["int"][:3] and a["float"][:3] == b["float"][:3]:
                b["int"][0] += 1
            for tag, s in (("a1", a), ("b", b), ("a2", a)):
                cases.append({"id": "aba-%s-%d-%s" % (name, i, tag), "pre": s, "acts": [{"a": "step"}]})
    return cases


def list_roundtrip_cases(ctx, n):
    g = gen.Gen(ctx.seed + 3, ctx.registry, small_ints=True)
    cases = []
    for i in range(n):
        s = g.state(depth=3)
        ids = [g.r.choice([1, 2, 5, 6, 9, 10]) for _ in range(g.r.randint(1, 5))]
        s["ivec"] = [ids] + s["ivec"]
        s["exec"] = [{"k": "ins", "v": "LIST.ADD"}, {"k": "int", "v": 0}, {"k": "ins", "v": "LIST.GET"}]
        cases.append({"id": "roundtrip-%05d" % i, "pre": s, "acts": [{"a": "steps", "k": 12}]})
    return cases


def run_c19(ctx):
    q = ctx.tier == "quick"
    mc_stage(ctx, "listrec", LISTREC, dict(CodePool="one", VecPool="ids", IntVals=[5], FloatVals=[F["one"]], NameVals=["a"], DInt=2, DFloat=1, DBool=1, DName=1, DCode=2, DExec=1, DVec=1 if q else 2))
    mc_stage(ctx, "listset_addr", ["LIST.SET"], dict(CodePool="abc", VecPool="ids", IntVals=[-1, 0, 1, 2, 5], FloatVals=[F["one"]], NameVals=["a"], DInt=1, DFloat=0, DBool=0, DName=0, DCode=3, DExec=1, DVec=1))
    mc_stage(ctx, "listval", LISTVAL, dict(CodePool="recs", IntVals=[-1, 0, 1, 2, 3, 5] if not q else [-1, 0, 1, 2, 5], DInt=2, DCode=2 if q else 3))
    run_events(ctx, "rand_list", random_instr_cases(ctx, LISTREC + LISTVAL, 60 if q else 8000, ctx.seed, small_ints=True))
    # LIST.GET followed by execution of the pushed record: chains of steps validated one by one
    run_events(ctx, "list_roundtrip", list_roundtrip_cases(ctx, 100 if q else 10000))
    # the helper behind the value instructions, called directly (every n, a running count to start from, every kind of pattern)
    gi = gen.Gen(ctx.seed + 9, ctx.registry, small_ints=True)
    ops = []
    for i in range(150 if q else 20000):
        t = nested_tree(gi, gi.r.randint(1, 14))
        if i % 5 == 0:      # values of the one literal type no instruction creates: loop counters
            t = lst([{"k": "index", "v": {"cur": 0, "dst": 3}}, t, {"k": "int", "v": 7}, {"k": "index", "v": {"cur": 1, "dst": 1}}, {"k": "bool", "v": True}])
        pat = gi.r.choice([{"k": "index", "v": {"cur": 0, "dst": 0}},{"k": "int", "v": 0}, {"k": "bool", "v": True}, {"k": "float", "v": 0}, {"k": "list", "v": []}, {"k": "id", "v": "q"}, {"k": "ins", "v": "NOOP"}, {"k": "ivec", "v": []}])
        ops.append({"m": "find", "args": [t, pat, gi.r.choice([0, 0, 1, 3]), gi.r.randint(0, 7)]})
    run_events(ctx, "item_find", [{"id": "find-%03d" % j, "api": "item", "ops": ops[j:j + 500]} for j in range(0, len(ops), 500)], spec="TraceApi")
    # the same through whole runs: nested records (a record inside a record), non-finite floats among the literals, growth caps
    # of a few ITEMS (a record of many points is one item)
    g = gen.Gen(ctx.seed + 7, RANDFREE(ctx.registry), small_ints=True)
    cs = []
    I = lambda v: {"k": "int", "v": v}
    for i in range(40 if q else 3000):
        s = gen.empty_state()
        s["bool"] = [g.r.random() < 0.5 for _ in range(4)]; s["int"] = [g.r.randint(-5, 5) for _ in range(3)]
        s["float"] = [g.r.choice([gen.f2b(1.5), gen.f2b(float("inf")), gen.f2b(float("-inf")), 2143289344, gen.f2b(-0.0)]) for _ in range(3)]
        # (caps that the unpacking of the program itself - at most ten items in one step - stays below, and that the items
        # coming back over several LIST.GETs together exceed)
        s["cfg"]["growth_cap"] = g.r.choice([3, 10, 12, 500]); s["cfg"]["max_prog_points"] = g.r.choice([100, 2, 5])
        inner = {"k": "ivec", "v": [g.r.choice([1, 5, 9]) for _ in range(g.r.randint(1, 4))]}
        outer = {"k": "ivec", "v": [3, g.r.choice([5, 9])]}
        s["exec"] = [lst([inner, ins("LIST.ADD"), outer, ins("LIST.ADD")] + [I(0), ins("LIST.GET")] * (1 + i % 3))]
        cs.append({"id": "listrun-%05d" % i, "pre": s, "acts": [{"a": "copy_to_code"}, {"a": "steps", "k": 40}, {"a": "run_from_start"}]})
    # a flat record of eight integers read back several times in one run under a cap of ten items per step: no single step
    # gains more than seven items, all reads together gain many more
    for k, (gets, cap) in enumerate([(1, 10), (2, 10), (3, 10), (4, 12), (3, 7), (3, 6)]):
        s = gen.empty_state()
        s["int"] = list(range(11, 19)); s["cfg"]["growth_cap"] = cap
        s["exec"] = [lst([{"k": "ivec", "v": [9] * 8}, ins("LIST.ADD")] + [I(0), ins("LIST.GET")] * gets)]
        cs.append({"id": "listrun-flat-%d" % k, "pre": s, "acts": [{"a": "copy_to_code"}, {"a": "steps", "k": 80}, {"a": "run_from_start"}]})
    run_events(ctx, "list_runs", cs)


def run_c20_instr(ctx):
    q = ctx.tier == "quick"
    mc_stage(ctx, "neighbor_ids", NEIGH[:1], dict(IntVals=[-1, 0, 1, 2, 3, 8, 9, 27, 64, 65, 70] if not q else [-1, 0, 1, 2, 9, 64, 70], DInt=3,
                                                   FloatVals=[F["zero"], F["one"], F["x15"], F["three"], F["nan"], F["mone"], F["inf"], F["h"], 1073741823, 1065353215] if not q else [F["one"], F["x15"], F["nan"], 1073741823], DFloat=1))   # 1073741823: the largest float below 2
    mc_stage(ctx, "neighbor_vals", NEIGH[1:], dict(CodePool="recs", IntVals=[-1, 0, 1, 2, 9, 70] if not q else [0, 1, 9, 70], DInt=4,
                                                    FloatVals=[F["one"], F["x15"], F["nan"]] if not q else [F["x15"]], DFloat=1, DCode=1 if q else 2))
    # every value position of nested records (positions beyond the first values of a nested sublist)
    mc_stage(ctx, "neighbor_vals_pos", NEIGH[1:], dict(CodePool="recs", IntVals=[2, 3, 9], DInt=4, FloatVals=[F["x15"]], DFloat=1, DCode=2))
    # operand tuples that describe no neighbourhood (dimensions or size <= 0, more than 64 dimensions) on states that already
    # hold vectors from earlier instructions: nothing is returned and nothing that was there is used up
    g = gen.Gen(ctx.seed + 83, ctx.registry, small_ints=True)
    cs = []
    recs = [lst([{"k": "int", "v": 10 * j}, lst([{"k": "int", "v": 10 * j + 1}, {"k": "bool", "v": j % 2 == 0}]), {"k": "int", "v": 10 * j + 2}, {"k": "float", "v": gen.f2b(j + 0.5)}]) for j in range(9)]
    for i in range(80 if q else 4000):
        s = g.state(depth=2)
        s["ivec"] = [[5, 7, 8], [0, 1]] + s["ivec"]; s["bvec"] = [[True, False]] + s["bvec"]; s["fvec"] = [[gen.f2b(1.0)]] + s["fvec"]
        s["code"] = recs + s["code"]
        name = g.r.choice(NEIGH)
        dims, idx, size = g.r.choice([-1, 0, 0, 1, 2, 65, 100]), g.r.randint(-1, 9), g.r.choice([0, -5, 9, 9, 100, 1])
        s["int"] = ([g.r.randint(0, 4)] if name != NEIGH[0] else []) + [dims, idx, size] + s["int"]
        if g.r.random() < 0.5:
            s["int"] = ([g.r.randint(0, 4)] if name != NEIGH[0] else []) + [size, idx, dims] + s["int"][3 + (name != NEIGH[0]):]
        s["float"] = [gen.f2b(g.r.choice([1.0, 1.5, 0.0]))] + s["float"]
        s["exec"] = [ins(name)]
        cs.append({"id": "nonb-%05d" % i, "pre": s, "acts": [{"a": "step"}]})
    run_events(ctx, "no_neighbourhood", cs)


def io_sequence_cases(ctx, n):
    """INPUT / OUTPUT instruction sequences over random message queues at rotated ring positions"""
    g = gen.Gen(ctx.seed + 11, ctx.registry, small_ints=True)
    cases = []
    for i in range(n):
        s = g.state(depth=2)
        s["input"] = [g.msg() for _ in range(g.r.randint(0, 10))]
        s["output"] = [g.msg() for _ in range(g.r.randint(0, 3))]
        s["rot"] = {"input": g.r.randint(0, 25), "output": g.r.randint(0, 7), "graph": 0}
        if i % 3 == 0:      # queues of another capacity than the default
            s["cfg"]["in_cap"], s["cfg"]["out_cap"] = g.r.choice([1, 2, 5, 12, 20]), g.r.choice([1, 2, 5, 8])
            s["input"] = s["input"][:s["cfg"]["in_cap"]]; s["output"] = s["output"][:s["cfg"]["out_cap"]]
        prog = []
        for _ in range(g.r.randint(3, 30)):
            k = g.r.random()
            if k < 0.25:
                prog += [{"k": "ivec", "v": [g.r.randint(0, 9)]}, {"k": "bvec", "v": [True]}, {"k": "ins", "v": "OUTPUT.WRITE"}]
            elif k < 0.75:
                prog.append({"k": "ins", "v": g.r.choice(IO)})
            elif k < 0.82:
                prog.append({"k": "int", "v": g.int()})
            elif k < 0.85:      # other traffic that concerns the queues' neighbours (names being sent)
                prog += [ins("NAME.QUOTE"), {"k": "id", "v": "peer"}, ins("NAME.SEND")]
            elif k < 0.93:
                prog.append({"k": "bvec", "v": g.bvec(4)})
            else:
                prog.append({"k": "ivec", "v": [g.int() for _ in range(g.r.randint(0, 3))]})
        s["exec"] = prog
        cases.append({"id": "ioseq-%05d" % i, "pre": s, "acts": [{"a": "steps", "k": 60}]})
    return cases


def run_c17_instr(ctx):
    q = ctx.tier == "quick"
    mc_stage(ctx, "io", IO, dict(VecPool="small", IntVals=IDX8, DInt=1, DVec=2))
    cases = io_sequence_cases(ctx, 60 if q else 3000)
    run_events(ctx, "io_sequences", cases)
    # whole runs, also those a limit cuts short: the messages written so far stay enqueued, the messages not yet read stay in
    # the INPUT queue (the state a run leaves behind is the state of that many single steps)
    cases = []
    for c in io_sequence_cases(ctx, 40 if q else 1500):
        pre = json.loads(json.dumps(c["pre"]))
        pre["exec"] = [x for x in pre["exec"] if not (x.get("k") == "ins" and x["v"] in NONDET)]
        pre["cfg"]["push_limit"] = [2, 5, 9, 14, 1000][len(cases) % 5]
        pre["cfg"]["growth_cap"] = [500, 500, 0, 1][len(cases) % 4]
        cases.append({"id": "iorun-" + c["id"], "pre": pre, "acts": [{"a": "copy_to_code"}, {"a": "steps", "k": max(pre["cfg"]["push_limit"], 0) + 3 if pre["cfg"]["push_limit"] < 100 else 70}, {"a": "run_from_start"}]})
    run_events(ctx, "io_runs", cases)


def graph_sequence_cases(ctx, n):
    """random GRAPH.* programs: histories of graph instructions with valid, stale and bogus ids"""
    g = gen.Gen(ctx.seed + 5, ctx.registry, small_ints=True)
    gi = graph_instrs(ctx.registry)
    cases = []
    for i in range(n):
        s = gen.empty_state()
        s["nid"] = g.r.randint(1, 4)
        prog = [{"k": "ins", "v": "GRAPH.ADD"}]
        for _ in range(g.r.randint(4, 30)):
            k = g.r.random()
            if k < 0.55:
                prog.append({"k": "ins", "v": g.r.choice(gi)})
            elif k < 0.85:
                prog.append({"k": "int", "v": g.r.randint(-1, 8)})
            elif k < 0.92:
                prog.append({"k": "float", "v": g.float()})
            elif k < 0.96:
                prog.append({"k": "ivec", "v": [g.r.randint(0, 8) for _ in range(g.r.randint(0, 3))]})
            else:
                prog.append({"k": "bvec", "v": g.bvec(3)})
        s["exec"] = prog
        cases.append({"id": "graphseq-%05d" % i, "pre": s, "acts": [{"a": "steps", "k": 40}]})
    return cases


def run_c18_instr(ctx):
    q = ctx.tier == "quick"
    mc_stage(ctx, "graph", graph_instrs(ctx.registry), dict(IntVals=[-1, 0, 1, 2, 3, 10, 2147483647] if not q else [-1, 0, 1, 2, 3], FloatVals=[F["h"], F["nan"]] if not q else [F["h"]],
                                                             VecPool="small", DInt=3, DFloat=1, DVec=1))
    cases = graph_sequence_cases(ctx, 40 if q else 8000)
    # STATESWITCH with ids that repeat (the later position wins), switches of every pattern, lengths that differ
    import itertools
    G = {"nodes": [{"id": 1, "st": 5}, {"id": 2, "st": 9}, {"id": 3, "st": 5}], "edges": [{"d": 2, "in": [{"o": 1, "w": F["h"]}]}]}
    k = 0
    for ids in ([1, 2, 1], [1, 1], [2, 1, 2, 1], [1, 2, 3, 1], [3, 3, 3], [1, 7, 1], [1, 2]):
        for sw in itertools.product([True, False], repeat=len(ids)):
            for extra in ((), (True,)) if len(ids) <= 3 else ((),):
                s = gen.empty_state()
                s["nid"] = 4; s["graph"] = [G]
                s["ivec"] = [ids]; s["bvec"] = [list(sw) + list(extra)]
                s["int"] = [3, 7, 42]          # off (top), on
                s["exec"] = [ins("GRAPH.NODE*STATESWITCH")]
                cases.append({"id": "stateswitch-%03d" % k, "pre": s, "acts": [{"a": "step"}]}); k += 1
    cases += same_graph_cases()
    # history queries read the snapshot at the requested depth - also when the graphs above it are unrelated to it (started
    # with GRAPH.ADD, other node ids)
    old = {"nodes": [{"id": 1, "st": 4}, {"id": 2, "st": 6}], "edges": [{"d": 2, "in": [{"o": 1, "w": F["h"]}]}]}
    top = {"nodes": [{"id": 5, "st": 1}, {"id": 6, "st": 2}], "edges": [{"d": 6, "in": [{"o": 5, "w": F["one"]}]}]}
    for k, (name, ints, vecs) in enumerate([("GRAPH.EDGE*HISTORY", [1, 2, 1], []), ("GRAPH.EDGE*HISTORY", [0, 6, 5], []), ("GRAPH.EDGE*HISTORY", [1, 6, 5], []), ("GRAPH.EDGE*HISTORY", [2, 2, 1], []),
                                            ("GRAPH.NODE*HISTORY", [1, 1], []), ("GRAPH.NODE*HISTORY", [1, 2], []), ("GRAPH.NODE*HISTORY", [0, 5], []), ("GRAPH.NODE*HISTORY", [1, 5], []),
                                            ("GRAPH.NODES*HISTORY", [1], [[4, 6]]), ("GRAPH.NODES*HISTORY", [0], [[1, 2]]), ("GRAPH.NODES*HISTORY", [2], [[4]])]):
        for stack in ([top, old], [top, top, old], [old, top]):
            s = gen.empty_state()
            s["nid"] = 7; s["graph"] = stack; s["int"] = ints + [9]; s["ivec"] = vecs + [[7]]
            s["exec"] = [ins(name)]
            cases.append({"id": "histdepth-%02d-%d" % (k, len(stack) * 10 + (stack[0] is old)), "pre": s, "acts": [{"a": "step"}]})
    # a graph of several thousand nodes: the queries answer with ALL the model's nodes, however many
    for k, n in enumerate((5003,) if q else (4999, 5003, 6001)):
        G = {"nodes": [{"id": j, "st": 1 + (j % 2)} for j in range(1, n + 1)], "edges": [{"d": 1, "in": [{"o": j, "w": F["h"]} for j in range(2, n + 1, 2)]}]}
        # (the queries take the wanted states as an INTVECTOR, the adjacency queries the node id as an INTEGER)
        # (only the node queries: the specification's adjacency queries are quadratic in the in-degree, minutes per event at this size)
        for name, states in (("GRAPH.NODES", [1, 2]),) if q else (("GRAPH.NODES", [1]), ("GRAPH.NODES", [1, 2]), ("GRAPH.NODES", [])):
            s = gen.empty_state()
            s["nid"] = n + 1; s["graph"] = [G]; s["int"] = [1, 2]; s["ivec"] = [states, [7]]
            s["exec"] = [ins(name)]
            cases.append({"id": "biggraph-%d-%s-%d" % (n, name, len(states)), "pre": s, "acts": [{"a": "step"}]})
    run_events(ctx, "graph_sequences", cases)


def same_graph_cases():
    """two snapshots with the same nodes, states, edges and weights whose incoming-edge lists were filled in different
    orders (snapshots supplied by a host, graph literals): nothing differs, GRAPH.PRINT*DIFF pushes nothing"""
    import itertools
    cases = []
    W = [gen.f2b(x) for x in (1.0, 2.0, 0.5, 4.0)]
    nodes = [{"id": i, "st": i % 2} for i in (1, 2, 3, 4)]
    k = 0
    for n_in in (2, 3):
        origins = list(range(1, n_in + 1))
        for perm in list(itertools.permutations(origins))[1:]:
            for changed in (False, True):
                a = {"nodes": nodes, "edges": [{"d": 4, "in": [{"o": o, "w": W[o - 1]} for o in origins]}, {"d": 1, "in": [{"o": 4, "w": W[3]}]}]}
                b = {"nodes": nodes, "edges": [{"d": 1, "in": [{"o": 4, "w": W[3]}]}, {"d": 4, "in": [{"o": o, "w": (W[3] if changed and o == perm[0] else W[o - 1])} for o in perm]}]}
                for older, newer in ((a, b), (b, a)):
                    s = gen.empty_state()
                    s["nid"] = 5; s["graph"] = [newer, older]; s["name"] = ["below"]
                    s["exec"] = [ins("GRAPH.PRINT*DIFF"), ins("GRAPH.PRINT")]
                    cases.append({"id": "samegraph-%03d" % k, "pre": s, "acts": [{"a": "steps", "k": 2}]}); k += 1
    return cases


def ins(n):
    return {"k": "ins", "v": n}


def lst(items):
    return {"k": "list", "v": items}


def random_loop_program(g, depth=0):
    """a random program of loops whose bodies are index-neutral (probe, INDEX.CURRENT arithmetic,
    balanced stack traffic, nested loops)"""
    r = g.r
    def body():
        k = r.random()
        parts = [ins("VERIF.PROBE")]
        if k < 0.3:
            parts = [ins("INDEX.CURRENT"), ins("VERIF.PROBE"), ins("INTEGER.POP")]
        elif k < 0.5:
            parts = [ins("INDEX.CURRENT"), {"k": "int", "v": r.randint(-3, 3)}, ins("INTEGER.+"), ins("VERIF.PROBE"), ins("INTEGER.POP")]
        elif k < 0.6:
            parts = [{"k": "bool", "v": r.random() < 0.5}, ins("EXEC.IF"), lst([{"k": "int", "v": 1}, ins("VERIF.PROBE"), ins("INTEGER.POP")]), ins("VERIF.PROBE")]
        if depth < 2 and r.random() < 0.35:
            parts = parts + random_loop_program(g, depth + 1)
        return lst(parts)
    k = r.random()
    n = r.randint(0, 30 if depth == 0 else 4)
    if k < 0.55:
        return [{"k": "int", "v": n}, ins("INDEX.DEFINE"), ins("EXEC.LOOP"), body()]
    if k < 0.85:
        return [{"k": "ivec", "v": [g.int() for _ in range(r.randint(0, 6))]}, ins("INTVECTOR.LOOP"), lst([ins("VERIF.PROBE"), ins("INTEGER.POP")])]
    return [ins("CODE.QUOTE"), body(), {"k": "int", "v": n}, ins("INDEX.DEFINE"), ins("CODE.LOOP")]


def loop_program_cases(ctx, n):
    g = gen.Gen(ctx.seed + 21, ctx.registry, small_ints=True)
    cases = []
    for i in range(n):
        s = gen.empty_state()
        if i % 4 == 3:
            # the loop body is a NAME bound to code, and the binding is replaced while the loop is running
            other = lst([ins("INDEX.CURRENT"), {"k": "int", "v": 200}, ins("VERIF.PROBE"), ins("INTEGER.POP"), ins("INTEGER.POP")])
            first = lst([ins("INDEX.CURRENT"), {"k": "int", "v": 100}, ins("VERIF.PROBE"), ins("INTEGER.POP"), ins("INTEGER.POP")] +
                        ([ins("NAME.QUOTE"), {"k": "id", "v": "body"}, ins(g.r.choice(["EXEC.DEFINE", "EXEC.DEFINE", "CODE.DEFINE"])), other] if g.r.random() < 0.8 else []))
            s["bind"] = {"body": first}
            s["code"] = [other]
            kind = g.r.choice(["EXEC.LOOP", "EXEC.LOOP", "INTVECTOR.LOOP", "EXEC.Y3"])
            if kind == "EXEC.LOOP":
                s["exec"] = [{"k": "int", "v": g.r.randint(0, 5)}, ins("INDEX.DEFINE"), ins("EXEC.LOOP"), {"k": "id", "v": "body"}]
            elif kind == "INTVECTOR.LOOP":
                s["exec"] = [{"k": "ivec", "v": [1, 2, 3]}, ins("INTVECTOR.LOOP"), {"k": "id", "v": "body"}]
            else:
                s["exec"] = [ins("EXEC.DUP"), {"k": "id", "v": "body"}, ins("EXEC.K"), {"k": "id", "v": "body"}, {"k": "id", "v": "body"}]
            cases.append({"id": "loops-%05d" % i, "pre": s, "acts": [{"a": "steps", "k": 400}]})
            continue
        s["exec"] = [lst(random_loop_program(g))]
        cases.append({"id": "loops-%05d" % i, "pre": s, "acts": [{"a": "steps", "k": 3000}]})
    return cases


def run_c06(ctx):
    q = ctx.tier == "quick"
    mc_stage(ctx, "control", CONTROL, dict(CodePool="abc", IntVals=[-1, 0, 3], DInt=1, DBool=1, DCode=3 if not q else 2, DExec=3, VecPool="small", DVec=1, Interp=True))
    mc_stage(ctx, "control_big", ["CODE.QUOTE", "CODE.DO", "CODE.DO*", "CODE.IF", "EXEC.IF", "EXEC.K", "EXEC.S", "EXEC.Y", "EXEC.LOOP", "CODE.LOOP", "INTVECTOR.LOOP", "EXEC.="],
             dict(CodePool="big", IntVals=[0], DInt=0, DBool=1, DCode=2, DExec=2 if q else 3, VecPool="small", DVec=1))
    stages.behav_stage(ctx, "control", 4 if q else 9)
    run_events(ctx, "random_loops", loop_program_cases(ctx, 40 if q else 5000))
    # no step kind consults the configuration: every control instruction / step kind under small and odd limits,
    # and lists longer than every configured limit (growth cap 500, push limit 1000, 100 points)
    g = gen.Gen(ctx.seed + 61, ctx.registry, small_ints=True)
    cs = []
    for i in range(120 if q else 4000):
        s = g.program_state(g.r.randint(2, 12))
        s["cfg"]["growth_cap"] = g.r.choice([0, 1, 2, 3, 5])
        s["cfg"]["push_limit"] = g.r.choice([0, 1, 2, 7, 1000])
        s["cfg"]["max_prog_points"] = g.r.choice([0, 1, 3, 100])
        s["cfg"]["time_limit"] = g.r.choice([0, 1, 5000])
        if i % 2:
            body = [g.item(g.r.randint(1, 3)) for _ in range(g.r.randint(2, 9))]
            s["exec"] = [ins(g.r.choice(CONTROL + ["EXEC.DUP", "EXEC.K", "EXEC.S", "EXEC.Y", "EXEC.IF", "EXEC.LOOP"])), lst(body), lst(body[:2])]
        cs.append({"id": "cfgstep-%05d" % i, "pre": s, "acts": [{"a": "steps", "k": 6}]})
    for i, n in enumerate([499, 500, 501, 502, 1000, 1001, 1500] if q else [99, 100, 101, 499, 500, 501, 502, 999, 1000, 1001, 1002, 1500, 2001]):
        for tail in (["EXEC.DUP"], ["EXEC.K"], ["CODE.QUOTE"], ["EXEC.IF"], ["NOOP"]):
            s = gen.empty_state()
            s["bool"] = [True, False]
            s["exec"] = [lst([ins("NOOP")] * (n - 1) + [ins(t) for t in tail] + [{"k": "int", "v": 5}, {"k": "int", "v": 6}, {"k": "int", "v": 7}])]
            cs.append({"id": "longlist-%d-%s" % (n, tail[0]), "pre": s, "acts": [{"a": "steps", "k": 3}]})
    for k, n in enumerate((9998, 10001) if q else (4094, 9998, 10001, 20000, 65534)):
        s = gen.empty_state()
        s["exec"] = [lst([{"k": "int", "v": 3}, ins("INDEX.DEFINE"), ins("EXEC.LOOP"), lst([ins("VERIF.PROBE")]), {"k": "int", "v": 8}])] + [ins("NOOP")] * n
        s["code"] = [{"k": "int", "v": 1}] * (n if k % 2 else 3)
        cs.append({"id": "pending-%d" % n, "pre": s, "acts": [{"a": "steps", "k": 14}]})
    run_events(ctx, "configuration_and_long_lists", cs)
    # loops cut off by the step limit: the state a run leaves behind is the state of that many single steps - counter on
    # INDEX, continuation on EXEC - so that the loop goes on where it stopped when the state is run again
    cs = []
    I = lambda v: {"k": "int", "v": v}
    for k, (n, lim) in enumerate([(7, 9), (7, 4), (3, 2), (5, 13), (4, 30), (6, 0)]):
        for loop in ("EXEC.LOOP", "CODE.LOOP", "INTVECTOR.LOOP"):
            s = gen.empty_state()
            s["cfg"]["push_limit"] = lim
            body = lst([ins("INDEX.CURRENT"), ins("VERIF.PROBE"), ins("INTEGER.POP")])
            if loop == "EXEC.LOOP":
                s["exec"] = [lst([I(n), ins("INDEX.DEFINE"), ins("EXEC.LOOP"), body, I(99)])]
            elif loop == "CODE.LOOP":
                s["exec"] = [lst([I(0), ins("INDEX.DEFINE"), ins("CODE.QUOTE"), body, ins("CODE.LOOP"), I(99)])]
            else:
                s["exec"] = [lst([{"k": "ivec", "v": list(range(n))}, ins("INTVECTOR.LOOP"), lst([ins("VERIF.PROBE"), ins("INTEGER.POP")]), I(99)])]
            cs.append({"id": "cutloop-%d-%s" % (k, loop), "pre": s, "acts": [{"a": "copy_to_code"}, {"a": "steps", "k": lim + 3}, {"a": "run_from_start"}]})
    # a run that starts on a state an earlier program (or an earlier, cut-off run) has left: the counter already on INDEX is
    # the loop's counter, the loop goes on from there and leaves no index behind
    for k, idx in enumerate([[(0, 3)], [(2, 5)], [(0, 1)], [(4, 4)], [(1, 2), (0, 3)]]):
        for loop in ("EXEC.LOOP", "CODE.LOOP", "CONT"):
            s = gen.empty_state()
            s["index"] = [{"cur": c, "dst": d} for c, d in idx]
            body = lst([ins("INDEX.CURRENT"), ins("VERIF.PROBE")])
            if loop == "EXEC.LOOP":
                s["exec"] = [lst([ins("EXEC.LOOP"), body, I(99)])]
            elif loop == "CODE.LOOP":
                s["exec"] = [lst([ins("CODE.QUOTE"), body, ins("CODE.LOOP"), I(99)])]
            else:      # the continuation a cut-off run leaves on EXEC
                s["exec"] = [lst([ins("INDEX.INCREASE"), ins("EXEC.LOOP"), body]), I(99)]
            cs.append({"id": "resumed-%d-%s" % (k, loop), "pre": s, "acts": [{"a": "copy_to_code"}, {"a": "steps", "k": 60}, {"a": "run_from_start"}]})
    # whole runs of loops that let the state grow by hundreds of items in total (never by more than a few per step), and of
    # loops over bodies of hundreds of points (one item each): the growth cap is about items gained in ONE step
    for k, n in enumerate((200, 700)):
        s = gen.empty_state()
        s["cfg"]["push_limit"] = 4000        # (about four steps per round)
        s["exec"] = [lst([I(n), ins("INDEX.DEFINE"), ins("EXEC.LOOP"), ins("INDEX.CURRENT"), I(99)])]
        cs.append({"id": "growloop-%d" % n, "pre": s, "acts": [{"a": "copy_to_code"}, {"a": "steps", "k": 4003}, {"a": "run_from_start"}]})
    wide = lst([lst([I(j)] * 24) for j in range(25)])          # 626 points, no list longer than 25
    for k, loop in enumerate(("EXEC.LOOP", "EXEC.DUP", "INTVECTOR.LOOP", "EXEC.K")):
        s = gen.empty_state()
        s["cfg"]["push_limit"] = 40
        s["exec"] = [lst(([I(2), ins("INDEX.DEFINE")] if loop == "EXEC.LOOP" else [{"k": "ivec", "v": [1, 2]}] if loop == "INTVECTOR.LOOP" else []) +
                         [ins(loop), lst([ins("VERIF.PROBE"), ins("CODE.QUOTE"), wide, ins("CODE.POP")]), I(99)])]
        cs.append({"id": "widebody-%s" % loop, "pre": s, "acts": [{"a": "copy_to_code"}, {"a": "steps", "k": 43}, {"a": "run_from_start"}]})
    run_events(ctx, "cut_loops", cs)
    # bodies that use the stack the loop takes its operands from (vector literals, INTVECTOR.POP / DUP inside INTVECTOR.LOOP;
    # INDEX.DEFINE / nested loops inside EXEC.LOOP): the elements still come in order, once each
    cs = []
    for k, body in enumerate([[ins("VERIF.PROBE"), {"k": "ivec", "v": [7]}], [ins("VERIF.PROBE"), {"k": "ivec", "v": [7, 8]}, ins("INTVECTOR.POP")],
                              [ins("VERIF.PROBE"), ins("INTVECTOR.DUP")], [ins("VERIF.PROBE"), {"k": "ivec", "v": []}, ins("INTVECTOR.SWAP")],
                              [ins("VERIF.PROBE"), {"k": "ivec", "v": [1, 2]}, ins("INTVECTOR.LOOP"), lst([ins("VERIF.PROBE"), ins("INTEGER.POP")])]]):
        for v in ([10, 20, 30], [5], [], [1, 2, 3, 4, 5, 6]):
            s = gen.empty_state()
            s["ivec"] = [[99, 98]]
            s["exec"] = [lst([{"k": "ivec", "v": v}, ins("INTVECTOR.LOOP"), lst(body + [ins("INTEGER.POP")]), I(77)])]
            cs.append({"id": "ownstack-%d-%d" % (k, len(v)), "pre": s, "acts": [{"a": "steps", "k": 120}]})
    run_events(ctx, "loops_on_their_own_stack", cs)


def run_c07(ctx):
    q = ctx.tier == "quick"
    mc_stage(ctx, "names", NAMES_FAM(ctx.registry), dict(CodePool="abc", NameVals=["a", "sbound", "x y"], IntVals=[0, 7], FloatVals=[F["one"], F["nan"]], VecPool="small",
                                                         DName=2, DInt=1, DFloat=1, DBool=1, DCode=1, DExec=1, DVec=1, Interp=True))
    stages.behav_stage(ctx, "names", 1)
    g = gen.Gen(ctx.seed + 31, ctx.registry, small_ints=True)
    toks = [ins(t + ".DEFINE") for t in ("BOOLEAN", "INTEGER", "FLOAT", "CODE", "EXEC", "BOOLVECTOR", "INTVECTOR", "FLOATVECTOR")] + \
           [ins("NAME.QUOTE"), ins("CODE.DEFINITION"), ins("CODE.QUOTE"), ins("NAME.DUP"), ins("NAME.POP")]
    cases = []
    for i in range(60 if q else 25000):
        s = g.state(depth=2)
        prog = []
        for _ in range(g.r.randint(3, 25)):
            k = g.r.random()
            if k < 0.35:
                prog.append({"k": "id", "v": g.r.choice(["a", "b", "c"])})
            elif k < 0.7:
                prog.append(g.r.choice(toks))
            else:
                a = g.atom()
                prog.append(a if a["k"] != "ins" else {"k": "int", "v": g.int()})
        s["exec"] = prog
        cases.append({"id": "names-%05d" % i, "pre": s, "acts": [{"a": "steps", "k": 80}]})
    # names spelled like registered instructions (built by the host, by CODE.FROMNAME, or parsed before a registration):
    # a name is a name whatever its text - unbound it lands on the NAME stack, bound its value is executed
    inames = ["INTEGER.DUP", "NAME.POP", "CODE.DO", "EXEC.FLUSH", "BOOLEAN.NOT", "VERIF.EARLY", "a"]
    toks2 = toks + [ins("CODE.FROMNAME"), ins("CODE.DO"), ins("CODE.DO*"), ins("CODE.POP"), ins("NAME.SWAP")]
    for i in range(40 if q else 5000):
        s = g.state(depth=2)
        s["name"] = [g.r.choice(inames) for _ in range(g.r.randint(0, 3))]
        for _ in range(g.r.randint(0, 2)):
            s["bind"][g.r.choice(inames)] = g.item(g.r.randint(1, 3))
        prog = []
        for _ in range(g.r.randint(3, 20)):
            k = g.r.random()
            if k < 0.4:
                prog.append({"k": "id", "v": g.r.choice(inames)})
            elif k < 0.8:
                prog.append(g.r.choice(toks2))
            else:
                prog.append({"k": "int", "v": g.int()})
        s["exec"] = prog
        cases.append({"id": "inames-%05d" % i, "pre": s, "acts": [{"a": "steps", "k": 60}]})
    run_events(ctx, "name_sequences", cases)
    # redefinition with values that differ but print alike (floats equal to three decimals, empty vectors of
    # different types, lists of those) and with values that are equal: the later definition must win
    fb = gen.f2b
    conf = [{"k": "float", "v": fb(0.125)}, {"k": "float", "v": fb(0.1252)}, {"k": "float", "v": fb(0.0)}, {"k": "float", "v": fb(-0.0)}, {"k": "float", "v": fb(1e-5)},
            {"k": "bvec", "v": []}, {"k": "ivec", "v": []}, {"k": "fvec", "v": []}, {"k": "int", "v": 7}, {"k": "id", "v": "b"},
            lst([{"k": "float", "v": fb(0.125)}, ins("FLOAT.+")]), lst([{"k": "float", "v": fb(0.1252)}, ins("FLOAT.+")]), lst([]), lst([{"k": "ivec", "v": []}]), lst([{"k": "fvec", "v": []}])]
    typed = {"float": "FLOAT", "bvec": "BOOLVECTOR", "ivec": "INTVECTOR", "fvec": "FLOATVECTOR", "int": "INTEGER"}
    cases = []
    k = 0
    for v1 in conf:
        for v2 in conf:
            for how in ("CODE", "EXEC", "typed"):
                def frag(v, quoted):
                    nm = [ins("NAME.QUOTE"), {"k": "id", "v": "x"}] if quoted else [{"k": "id", "v": "x"}]
                    if how == "CODE": return [ins("CODE.QUOTE"), v] + nm + [ins("CODE.DEFINE")]
                    if how == "EXEC": return nm + [ins("EXEC.DEFINE"), v]
                    return [v] + nm + [ins(typed[v["k"]] + ".DEFINE")]
                if how == "typed" and (v1["k"] not in typed or v2["k"] not in typed):
                    continue
                s = gen.empty_state()
                s["float"] = [fb(1.0)]
                s["exec"] = frag(v1, False) + frag(v2, True) + [{"k": "id", "v": "x"}, ins("NAME.QUOTE"), {"k": "id", "v": "x"}, ins("CODE.DEFINITION")]
                cases.append({"id": "redef-%04d" % k, "pre": s, "acts": [{"a": "steps", "k": 30}]}); k += 1
    if q:
        cases = cases[::3]
    # bound values of every size come back unchanged (lists of 3 ... 400 points), whatever the configured limits
    I = lambda v: {"k": "int", "v": v}
    for n in (3, 99, 100, 101, 150, 400):
        for how in ("CODE", "EXEC"):
            for mp in (100, 5):
                big = lst([I(j) for j in range(n)])
                s = gen.empty_state()
                s["cfg"]["max_prog_points"] = mp
                s["exec"] = ([ins("CODE.QUOTE"), big, {"k": "id", "v": "x"}, ins("CODE.DEFINE")] if how == "CODE" else [{"k": "id", "v": "x"}, ins("EXEC.DEFINE"), big]) + \
                    [ins("NAME.QUOTE"), {"k": "id", "v": "x"}, ins("CODE.DEFINITION"), ins("NAME.QUOTE"), {"k": "id", "v": "x"}, ins("CODE.DEFINITION"), ins("CODE.LENGTH")]
                cases.append({"id": "bigdef-%d-%s-%d" % (n, how, mp), "pre": s, "acts": [{"a": "steps", "k": 12}]})
    run_events(ctx, "redefinitions", cases)
    # a NAME.QUOTE that is still pending when a run starts (the previous program ended with it, or was cut off right
    # after it) applies to the next name the new run meets
    cases = []
    for k, (bindv, prog) in enumerate([(I(5), ["x", "x"]), ({"k": "bool", "v": True}, ["x"]), (lst([I(1), I(2)]), [lst(["x", 7]), "x"]), (I(5), [7, "x", "x"]), (I(5), [])]):
        for quote in (True, False):
            s = gen.empty_state()
            s["bind"] = {"x": bindv}; s["quote"] = quote
            conv = lambda t: {"k": "id", "v": t} if isinstance(t, str) else I(t) if isinstance(t, int) else lst([conv(u) for u in t["v"]]) if isinstance(t, dict) and t.get("k") == "list" and any(not isinstance(u, dict) for u in t["v"]) else t
            s["exec"] = [conv(t) for t in prog]
            cases.append({"id": "pendingquote-%d-%s" % (k, quote), "pre": s, "acts": [{"a": "copy_to_code"}, {"a": "steps", "k": 8}, {"a": "run_from_start"}]})
    run_events(ctx, "pending_quote", cases)
    # names of every shape arrive through the parser ("for all names n"): spelled like TYPE.OPERATION without being an
    # instruction of the running set, lower-case spellings of instructions, digits first, dots and stars; each is used
    # unbound, defined, used bound, quoted, redefined
    cases = []
    for k, nm in enumerate(["INTEGER.SQUARE", "FLOAT.SCALE", "CODE.NOSUCH", "EXEC.x", "NAME.", "integer.dup", "noop", "Exec.If", "x", "x.y", "a*b", "7up", "GRAPH.NODE*",
                            "INT", "FLOAT", "BOOL", "INTEGER", "BOOLVECTOR", "INT]", "[", "]", "true", "False", "nil"]):
        text = "( %s 5 %s INTEGER.DEFINE %s NAME.QUOTE %s 6 NAME.QUOTE %s INTEGER.DEFINE %s NAME.QUOTE %s CODE.DEFINITION )" % ((nm,) * 7)
        cases.append({"id": "nametext-%02d" % k, "pre": gen.empty_state(), "acts": [{"a": "parse", "text": text}, {"a": "steps", "k": 30}]})
    # a name bound (EXEC.DEFINE / CODE.DEFINE) to ANOTHER bound name stays bound to that name: later definitions of the
    # other name show through, CODE.DEFINITION returns the name
    for k, how in enumerate(("EXEC", "CODE")):
        alias = [{"k": "id", "v": "x"}, ins("EXEC.DEFINE"), {"k": "id", "v": "y"}] if how == "EXEC" else [ins("CODE.QUOTE"), {"k": "id", "v": "y"}, {"k": "id", "v": "x"}, ins("CODE.DEFINE")]
        s = gen.empty_state()
        s["bind"] = {"y": I(5)}
        s["exec"] = alias + [{"k": "id", "v": "x"}, I(7), ins("NAME.QUOTE"), {"k": "id", "v": "y"}, ins("INTEGER.DEFINE"), {"k": "id", "v": "x"},
                             ins("NAME.QUOTE"), {"k": "id", "v": "x"}, ins("CODE.DEFINITION")]
        cases.append({"id": "alias-%s" % how, "pre": s, "acts": [{"a": "steps", "k": 20}]})
    run_events(ctx, "name_texts", cases)


# instructions whose result is not a function of the abstract state: random draws, the shell-out, and the graph
# queries / renderings that expose hash-map iteration order (a fresh RandomState per map)
NONDET = {"NAME.RANDBOUNDNAME", "EXEC.CMD", "GRAPH.PRINT", "GRAPH.PRINT*DIFF", "GRAPH.NODES", "GRAPH.NODES*HISTORY",
          "GRAPH.NODE*SUCCESSORS", "GRAPH.NODE*NEIGHBORS"}
RANDFREE = lambda reg: [n for n in reg if not n.endswith(".RAND") and n not in NONDET]


def run_c02(ctx):
    q = ctx.tier == "quick"
    cfg = 'SPECIFICATION Spec\nCONSTANTS\n MaxLimit = %d\n MaxCap = %d\nINVARIANTS R1 R2 R3 R3b R4 R5 R6 StepsBounded Emit\nPROPERTY Terminates\nCHECK_DEADLOCK FALSE\n' % ((5, 2) if q else (12, 5))
    cases, st = pv.run_tlc_model("MC_Run", cfg, ctx.work, workers=8, tag="mc_run")
    if "error" in st:
        raise pv.ToolError("TLC failed on MC_Run:\n" + st["error"])
    ctx.stats["states"] += st["states"]; ctx.stats["transitions"] += st["transitions"]; ctx.stats["tlc_runs"].append(st)
    cs = []
    for i, c in enumerate(cases):
        pre = c["pre"]
        if pre.get("bind") == []:
            pre["bind"] = {}
        lim = pre["cfg"]["push_limit"]
        cs.append({"id": "run-%05d" % i, "pre": pre, "acts": [{"a": "copy_to_code"}, {"a": "steps", "k": max(lim, 0) + 3},
                                                              {"a": "run_from_start", "xout": c["xout"], "xsteps": c["xsteps"]}]})
    run_events(ctx, "mc_run", cs)
    # random RAND-free programs x random limits: run() against the independent chain of single steps
    g = gen.Gen(ctx.seed + 41, RANDFREE(ctx.registry))
    cs = []
    for i in range(150 if q else 30000):
        s = g.program_state(g.r.randint(1, 30))
        lim = g.r.choice([-1, 0, 1, 2, 3, 5, 8, 13, 21, 40])
        s["cfg"]["push_limit"] = lim
        s["cfg"]["growth_cap"] = g.r.choice([0, 1, 2, 3, 5, 500, -1, -2])      # negative: usize::MAX, usize::MAX - 1 ("no cap")
        if g.r.random() < 0.3:      # the program is already on the CODE stack (e.g. a second run on the same state)
            s["code"] = [json.loads(json.dumps(x)) for x in s["exec"]] + (s["code"] if g.r.random() < 0.5 else [])
        cs.append({"id": "randrun-%05d" % i, "pre": s, "acts": [{"a": "copy_to_code"}, {"a": "steps", "k": max(lim, 0) + 3}, {"a": "run_from_start"}]})
    run_events(ctx, "random_runs", cs)
    # "a step on an empty EXEC stack reports completion and changes nothing": every part of the state, the pending
    # NAME.QUOTE flag and the send flag included, and however the stack became empty
    cs = []
    for i in range(40 if q else 2000):
        s = g.state(depth=2)
        s["quote"] = i % 2 == 0; s["send"] = i % 3 == 0
        s["exec"] = [] if i % 4 else [ins("NAME.QUOTE")] if i % 8 else [{"k": "int", "v": 1}, ins("NAME.QUOTE")]
        cs.append({"id": "emptystep-%05d" % i, "pre": s, "acts": [{"a": "copy_to_code"}, {"a": "steps", "k": len(s["exec"]) + 3}, {"a": "run_from_start"}]})
    run_events(ctx, "empty_exec", cs)
    # growth accounting: every RAND-free instruction as a one-instruction program under growth caps 0 and 1
    cs = []
    for c in random_instr_cases(ctx, RANDFREE(ctx.registry), 1 if q else 6, ctx.seed + 43, prefix="growth", small_ints=True, registry=RANDFREE(ctx.registry)):
        for cap in (0, 1):
            s = json.loads(json.dumps(c["pre"]))
            s["cfg"]["growth_cap"] = cap
            s["cfg"]["push_limit"] = 4
            if not s["input"]:
                s["input"] = [g.msg()]
            cs.append({"id": "%s-cap%d" % (c["id"], cap), "pre": s, "acts": [{"a": "copy_to_code"}, {"a": "steps", "k": 7}, {"a": "run_from_start"}]})
    run_events(ctx, "growth_accounting", cs)
    # wall-clock limit: sleeping programs under a small eval_time_limit (one-sided inequalities only)
    cs = []
    for i, (nsleep, tl) in enumerate([(1, 1000), (3, 60), (4, 100), (5, 50), (2, 500)] if q else [(k, t) for k in (1, 2, 3, 5, 8) for t in (30, 60, 100, 200, 1000)]):
        s = gen.empty_state()
        s["exec"] = [ins("VERIF.SLEEP") for _ in range(nsleep)]
        s["cfg"]["time_limit"] = tl
        cs.append({"id": "sleep-%03d" % i, "pre": s, "acts": [{"a": "copy_to_code"}, {"a": "steps", "k": nsleep + 2}, {"a": "run_from_start"}]})
    # ... and user instructions that change the limits in the middle of a run: a run obeys the configuration of the state it is
    # running on, step by step (VERIF.TIMEUP sets the time limit to 0; the single-step chain is not bound by time)
    I = lambda v: {"k": "int", "v": v}
    for i, (before, after) in enumerate([(3, 4), (1, 1), (0, 3), (6, 0), (2, 9)]):
        for tl in (5000, 1, 60000):
            s = gen.empty_state()
            s["exec"] = [lst([I(k) for k in range(before)] + [ins("VERIF.TIMEUP")] + [I(100 + k) for k in range(after)] + [ins("INTEGER.+")] * min(after, 2))]
            s["cfg"]["time_limit"] = tl
            if tl == 1:      # (1 ms may be over before the instruction is reached: then the limit never TURNS 0 within the run)
                s["exec"] = [ins("VERIF.TIMEUP")] + s["exec"]
            cs.append({"id": "timeup-%02d-%d" % (i, tl), "pre": s, "acts": [{"a": "copy_to_code"}, {"a": "steps", "k": before + after + 6}, {"a": "run_from_start"}]})
    run_events(ctx, "time_limit", cs)


def api_model(ctx, mod, tag, cfg, mk, workers=10):
    """runs an API-level bounded model and replays its cases through the API drivers"""
    cases, st = pv.run_tlc_model(mod, cfg, ctx.work, workers=workers, tag=tag)
    if "error" in st:
        raise pv.ToolError("TLC failed on %s:\n%s" % (tag, st["error"]))
    ctx.stats["states"] += st["states"]; ctx.stats["transitions"] += st["transitions"]; ctx.stats["tlc_runs"].append(st)
    cs = []
    for i, c in enumerate(cases):
        d = mk(c)
        d["id"] = "%s-%06d" % (tag, i)
        cs.append(d)
    run_events(ctx, tag, cs, spec="TraceApi")
    return len(cs)


STACK_M0 = ["to_string", "size", "bottom_mut", "flush", "reverse", "pop_front", "pop", "clone"]
STACK_M1 = ["remove", "get", "get_mut", "copy", "yank", "shove", "pop_vec", "copy_vec"]


def random_stack_history(g, elem, n, pool=None):
    r = g.r
    el = (lambda: r.choice(pool)) if pool else (lambda: g.int()) if elem == "int" else (lambda: g.item(r.randint(1, 4), plain=True))
    ops, size = [], 0
    for _ in range(n):
        k = r.random()
        pos = r.randint(0, size + 2)
        if k < 0.25:
            ops.append({"m": r.choice(["push", "push_front"]), "args": [el()]}); size += 1
        elif k < 0.45:
            ops.append({"m": r.choice(STACK_M1), "args": [pos]})
        elif k < 0.6:
            ops.append({"m": r.choice(["pop", "pop_front", "to_string", "size", "bottom_mut", "reverse", "clone"]), "args": []})
        elif k < 0.75:
            ops.append({"m": r.choice(["equal_at", "replace"]), "args": [pos, el()]})
        elif k < 0.85:
            ops.append({"m": "last_eq", "args": [el()]})
        elif k < 0.97:
            ops.append({"m": "push_vec", "args": [[el() for _ in range(r.randint(0, 3))]]}); size += 2
        else:
            ops.append({"m": r.choice(["clone_from", "from_vec"]), "args": [[el() for _ in range(r.randint(0, 3))]]} if r.random() < 0.5 else {"m": "flush", "args": []}); size = 2
        size = max(0, min(size, 40))
    return ops


def run_c16(ctx):
    q = ctx.tier == "quick"
    for elem in ("int", "item", "float"):
        cfg = 'SPECIFICATION Spec\nCONSTANTS\n Elem = "%s"\n MaxLen = %d\nINVARIANTS Laws Emit\nCHECK_DEADLOCK FALSE\n' % (elem, (3 if q else 4) if elem != "float" else (2 if q else 3))
        api_model(ctx, "MC_Stack", "mc_stack_" + elem, cfg, lambda c, elem=elem: {"api": "stack", "elem": elem, "init": c["init"], "ops": c["ops"]})
    g = gen.Gen(ctx.seed + 51, ctx.registry)
    cs = []
    FL = [gen.f2b(x) for x in (1.21, 1.25, 1.2, 0.5, -2.75, 100.0, 0.0, -0.0, 0.05, 0.04, float("inf"), float("-inf"))] + [2143289344, -4194304]
    for i in range(20 if q else 2000):
        cs.append({"id": "floathist-%05d" % i, "api": "stack", "elem": "float", "init": [g.r.choice(FL) for _ in range(g.r.randint(0, 4))],
                   "ops": random_stack_history(g, "float", 200, pool=FL)})
    for i in range(40 if q else 8000):
        elem = "int" if i % 2 == 0 else "item"
        odd = [{"k": "id", "v": "\u00e9"}, {"k": "id", "v": "a"}, {"k": "int", "v": 7}, lst([{"k": "id", "v": "\u00fc"}, {"k": "int", "v": 1}]), lst([{"k": "id", "v": "x"}, {"k": "int", "v": 1}]),
               {"k": "id", "v": "\U0001d11e\u20ac"}, {"k": "id", "v": "\u20ac"}]      # texts that are not ASCII next to ASCII ones of the same shape
        el = (lambda: g.int()) if elem == "int" else (lambda: g.item(2, plain=True) if g.r.random() < 0.7 else g.r.choice(odd))
        cs.append({"id": "stackhist-%05d" % i, "api": "stack", "elem": elem, "init": [el() for _ in range(g.r.randint(0, 4))],
                   "ops": random_stack_history(g, elem, 200)})
    # positions near usize::MAX (encoded as negative numbers) on stacks of every small length: reported as absent, never fail
    k = 0
    for elem in ("int", "item"):
        mk = (lambda j: j) if elem == "int" else (lambda j: {"k": "int", "v": j})
        for n in range(0, 4):
            for m in STACK_M1 + ["equal_at", "replace"]:
                for pos in (-1, -2, -3):
                    args = [pos] + ([mk(7)] if m in ("equal_at", "replace") else [])
                    cs.append({"id": "hugepos-%04d" % k, "api": "stack", "elem": elem, "init": [mk(j) for j in range(n)],
                               "ops": [{"m": m, "args": args}, {"m": "size", "args": []}, {"m": "to_string", "args": []}]}); k += 1
    # every pair of texts of different byte lengths, ASCII and not, as stack element and as probe
    odd = [{"k": "id", "v": "\u00e9"}, {"k": "id", "v": "a"}, {"k": "int", "v": 7}, lst([{"k": "id", "v": "\u00fc"}, {"k": "int", "v": 1}]), lst([{"k": "id", "v": "x"}, {"k": "int", "v": 1}]),
           {"k": "id", "v": "\U0001d11e\u20ac"}, {"k": "id", "v": "\u20ac"}, {"k": "id", "v": "ab"}, {"k": "id", "v": "abc"}, {"k": "id", "v": "a\u00e9"}, {"k": "id", "v": "\u00e9a"}, lst([])]
    for a_i, a in enumerate(odd):
        for b_i, b in enumerate(odd):
            cs.append({"id": "textpair-%02d-%02d" % (a_i, b_i), "api": "stack", "elem": "item", "init": [a, b],
                       "ops": [{"m": "equal_at", "args": [0, b]}, {"m": "equal_at", "args": [1, a]}, {"m": "equal_at", "args": [0, a]}, {"m": "last_eq", "args": [b]},
                               {"m": "to_string", "args": []}, {"m": "replace", "args": [0, b]}, {"m": "equal_at", "args": [0, b]}]})
    # elements nested deeper than any limit one might think of (printing and the equality probe pass through item.rs)
    for k, n in enumerate((3, 100, 127, 128, 129, 130, 200, 300) if q else (1, 2, 3, 50, 100, 126, 127, 128, 129, 130, 131, 200, 255, 256, 257, 300, 400)):
        cs.append({"id": "deep-%04d" % k, "api": "stack", "elem": "item", "init": [{"k": "int", "v": 5}] * (k % 3),
                   "ops": [{"m": "deep_probe", "args": [n, 7]}, {"m": "size", "args": []}, {"m": "to_string", "args": []}]})
    # an element whose printed form is empty (a name without text, built by the host) is still listed: it sits between two
    # blanks, and a list holding it does not read like the list without it
    nm = lambda t: {"k": "id", "v": t}
    e3, e2 = lst([nm("B"), nm(""), nm("A")]), lst([nm("B"), nm("A")])
    for k, init in enumerate(([nm("B"), nm(""), nm("A")], [nm("B"), nm(""), nm(""), nm("A")], [e3, {"k": "int", "v": 3}], [{"k": "int", "v": 3}, e3, e2],
                              [lst([{"k": "int", "v": 1}, lst([nm("x"), nm(""), nm("y")]), {"k": "int", "v": 2}])])):
        cs.append({"id": "emptyname-%d" % k, "api": "stack", "elem": "item", "init": init,
                   "ops": [{"m": "to_string", "args": []}, {"m": "size", "args": []}, {"m": "equal_at", "args": [0, e2]}, {"m": "equal_at", "args": [0, e3]},
                           {"m": "equal_at", "args": [1, e2]}, {"m": "equal_at", "args": [1, e3]}, {"m": "push", "args": [e2]}, {"m": "equal_at", "args": [0, e3]},
                           {"m": "to_string", "args": []}]})
    run_events(ctx, "stack_histories", cs, spec="TraceApi")


BUF_OBS = ["capacity", "size", "is_empty", "is_full", "peek_oldest", "copy_oldest", "peek_newest", "iter", "iter_len", "to_string"]


def run_c17(ctx):
    q = ctx.tier == "quick"
    for cap in ((1, 2, 3) if q else (1, 2, 3, 4)):
        for kind in ("queue", "stack"):
            cfg = 'SPECIFICATION Spec\nCONSTANTS\n Cap = %d\n Kind = "%s"\nINVARIANTS Inv Refines Emit\nVIEW view\nCHECK_DEADLOCK FALSE\n' % (cap, kind)
            api_model(ctx, "MC_Ring", "mc_ring_%s%d" % (kind, cap), cfg, lambda c: {"api": "buffer", "kind": c["kind"], "cap": c["cap"], "ops": c["ops"]}, workers=6)
    g = gen.Gen(ctx.seed + 61, ctx.registry)
    cs = []
    for i in range(30 if q else 1500):
        cap = g.r.randint(1, 6)
        ops = []
        for _ in range(400 if q else 1000):
            k = g.r.random()
            if k < 0.3:
                ops.append({"m": "push", "args": [g.int()]})
            elif k < 0.5:
                ops.append({"m": "push_force", "args": [g.int()]})
            elif k < 0.7:
                ops.append({"m": "pop", "args": []})
            elif k < 0.72:
                ops.append({"m": "flush", "args": []})
            elif k < 0.82:
                ops.append({"m": g.r.choice(["get", "get_mut", "copy", "iter_skip", "iter_nth"]), "args": [g.r.randint(0, cap + 1)]})
            elif k < 0.83:     # positions at the far end of usize (-1 = usize::MAX, -2 = usize::MAX - 1, -1000 = 2^32) and of i32
                ops.append({"m": g.r.choice(["get", "get_mut", "copy"]), "args": [g.r.choice([-1, -2, -3, -1000, 2147483647, 2147483646])]})
            elif k < 0.86:
                ops.append({"m": "iter_step", "args": [g.r.randint(1, cap + 1)]})
            else:
                ops.append({"m": g.r.choice(BUF_OBS + ["iter_last"]), "args": []})
        cs.append({"id": "bufhist-%05d" % i, "api": "buffer", "kind": g.r.choice(["queue", "stack"]), "cap": cap, "ops": ops})
    run_events(ctx, "buffer_histories", cs, spec="TraceApi")
    run_c17_instr(ctx)


def run_c18(ctx):
    q = ctx.tier == "quick"
    cfg = 'SPECIFICATION Spec\nCONSTANTS\n MaxNodes = %d\n MaxOps = %d\nINVARIANTS G12 G3 G4 G4f G7 Emit\nVIEW view\nCHECK_DEADLOCK FALSE\n' % ((2, 4) if q else (3, 5))
    api_model(ctx, "MC_Graph", "mc_graph", cfg, lambda c: {"api": "graph", "nid": c["nid"], "ops": c["ops"]}, workers=12)
    g = gen.Gen(ctx.seed + 71, ctx.registry)
    cs = []
    for i in range(40 if q else 6000):
        ops, nn = [], 0
        for _ in range(g.r.randint(20, 200)):
            k = g.r.random()
            ident = lambda: g.r.randint(0, nn + 2)
            if k < 0.2 and nn < 12:
                ops.append({"m": "add_node", "args": [g.r.randint(0, 3)]}); nn += 1
            elif k < 0.27:
                ops.append({"m": "remove_node", "args": [ident()]})
            elif k < 0.5:
                ops.append({"m": "add_edge", "args": [ident(), ident(), g.float()]})
            elif k < 0.57:
                ops.append({"m": "remove_edge", "args": [ident(), ident()]})
            elif k < 0.65:
                ops.append({"m": "set_state", "args": [ident(), g.r.randint(0, 3)]})
            elif k < 0.72:
                ops.append({"m": "set_weight", "args": [ident(), ident(), g.float()]})
            elif k < 0.76:
                ops.append({"m": "clone", "args": []})
            elif k < 0.82:
                ops.append({"m": g.r.choice(["diff", "diff_rev", "eq", "diff_text", "diff_text"]), "args": [g.r.randint(0, 3)]})
            elif k < 0.88:
                ops.append({"m": "filter", "args": [[g.r.randint(0, 3) for _ in range(g.r.randint(0, 3))]]})
            elif k < 0.94:
                ops.append({"m": g.r.choice(["get_state"]), "args": [ident()]})
            elif k < 0.97:
                ops.append({"m": "get_weight", "args": [ident(), ident()]})
            else:
                ops.append({"m": g.r.choice(["node_size", "edge_size", "to_string"]), "args": []})
        cs.append({"id": "graphhist-%05d" % i, "api": "graph", "nid": g.r.randint(1, 5), "ops": ops})
    # incoming-edge lists whose order differs between two snapshots with the same abstract content:
    # remove an edge (first, middle, last) from the clone and add it again, with the same or another weight
    W = [gen.f2b(x) for x in (1.0, 2.0, 0.5, 4.0, 8.0)]
    k = 0
    for n_in in (2, 3, 4):
        for pos in range(n_in):
            for same in (True, False):
                for selfloop in (False, True):
                    ops = [{"m": "add_node", "args": [i % 2]} for i in range(n_in + 1)]
                    d = 1 if selfloop else n_in + 1
                    origins = list(range(1, n_in + 1))
                    ops += [{"m": "add_edge", "args": [o, d, W[i]]} for i, o in enumerate(origins)]
                    ops += [{"m": "clone", "args": []}, {"m": "diff", "args": [1]}, {"m": "eq", "args": [1]},
                            {"m": "remove_edge", "args": [origins[pos], d]}, {"m": "diff", "args": [1]}, {"m": "diff_text", "args": [1]},
                            {"m": "add_edge", "args": [origins[pos], d, W[pos] if same else W[4]]},
                            {"m": "diff", "args": [1]}, {"m": "diff_text", "args": [1]}, {"m": "eq", "args": [1]}, {"m": "edge_size", "args": []},
                            {"m": "get_weight", "args": [origins[pos], d]}, {"m": "to_string", "args": []},
                            {"m": "set_weight", "args": [origins[0], d, W[3]]}, {"m": "diff", "args": [1]}, {"m": "diff_text", "args": [1]},
                            # a weight that differs from the snapshot's by one unit in the last place
                            {"m": "clone", "args": []}, {"m": "set_weight", "args": [origins[0], d, W[3] + 1]}, {"m": "diff", "args": [1]}, {"m": "get_weight", "args": [origins[0], d]},
                            {"m": "set_weight", "args": [origins[0], d, W[3]]}, {"m": "diff", "args": [1]},
                            {"m": "remove_node", "args": [origins[pos]]}, {"m": "diff", "args": [1]}, {"m": "diff_text", "args": [1]},
                            {"m": "to_string", "args": []}, {"m": "edge_size", "args": []}]
                    cs.append({"id": "edgeorder-%03d" % k, "api": "graph", "nid": 1, "ops": ops}); k += 1
    # two snapshots that differ in one weight only - by one unit in the last place of a small weight, by less than
    # any fixed tolerance, by the sign of zero (IEEE-equal: no difference), or not at all although the weight is infinite
    PAIRS = [(gen.f2b(0.25), gen.f2b(0.25) + 1, True), (gen.f2b(0.0), gen.f2b(1e-9), True), (gen.f2b(1e-8), gen.f2b(2e-8), True),
             (gen.f2b(1e-30), gen.f2b(-1e-30), True), (1, 2, True), (gen.f2b(1.0), gen.f2b(1.0) - 1, True),
             (gen.f2b(float("inf")), gen.f2b(float("inf")), False), (gen.f2b(float("-inf")), gen.f2b(float("-inf")), False),
             (gen.f2b(float("inf")), gen.f2b(float("-inf")), True), (gen.f2b(3.4028235e38), gen.f2b(float("inf")), True),
             (gen.f2b(0.0), gen.f2b(-0.0), False), (gen.f2b(0.1), gen.f2b(0.1), False), (gen.f2b(1e10), gen.f2b(1e10) + 1, True)]
    for k2, (w1, w2, _) in enumerate(PAIRS):
        for via in ("set_weight", "readd"):
            ops = [{"m": "add_node", "args": [0]}, {"m": "add_node", "args": [1]}, {"m": "add_edge", "args": [1, 2, w1]},
                   {"m": "add_edge", "args": [2, 2, gen.f2b(float("inf"))]}, {"m": "clone", "args": []}, {"m": "diff", "args": [1]}, {"m": "diff_text", "args": [1]}]
            if via == "set_weight":
                ops += [{"m": "set_weight", "args": [1, 2, w2]}]
            else:
                ops += [{"m": "remove_edge", "args": [1, 2]}, {"m": "add_edge", "args": [1, 2, w2]}]
            ops += [{"m": "diff", "args": [1]}, {"m": "diff_rev", "args": [1]}, {"m": "diff_text", "args": [1]}, {"m": "get_weight", "args": [1, 2]},
                    {"m": "clone", "args": []}, {"m": "diff", "args": [1]}, {"m": "diff_rev", "args": [1]}, {"m": "diff", "args": [2]}, {"m": "diff_rev", "args": [2]}, {"m": "diff_text", "args": [2]},
                    # an edge into a node that has no incoming edge in the snapshot (and the other way round)
                    {"m": "add_edge", "args": [2, 1, w1]}, {"m": "diff", "args": [1]}, {"m": "diff_rev", "args": [1]}, {"m": "clone", "args": []},
                    {"m": "remove_edge", "args": [2, 1]}, {"m": "diff", "args": [1]}, {"m": "diff_rev", "args": [1]}]
            cs.append({"id": "weightpair-%02d-%s" % (k2, via), "api": "graph", "nid": 1, "ops": ops})
    # many incoming edges, a node removed from the middle, then every remaining pair added again (a no-op: at most
    # one edge per ordered pair), in several insertion orders
    for n_in in (3, 4, 5, 6):
        for order in range(3):
            for victim in range(n_in):
                origins = list(range(1, n_in + 1))
                if order == 1: origins.reverse()
                if order == 2: origins = origins[1::2] + origins[0::2]
                d = n_in + 1
                ops = [{"m": "add_node", "args": [i % 3]} for i in range(n_in + 1)]
                ops += [{"m": "add_edge", "args": [o, d, W[i % 5]]} for i, o in enumerate(origins)]
                ops += [{"m": "remove_node", "args": [origins[victim]]}, {"m": "edge_size", "args": []}]
                rest = [o for o in origins if o != origins[victim]]
                ops += [{"m": "add_edge", "args": [o, d, W[4]]} for o in rest]
                ops += [{"m": "edge_size", "args": []}, {"m": "node_size", "args": []}] + [{"m": "get_weight", "args": [o, d]} for o in origins]
                ops += [{"m": "remove_edge", "args": [rest[0], d]}, {"m": "edge_size", "args": []}, {"m": "get_weight", "args": [rest[0], d]}, {"m": "to_string", "args": []}]
                cs.append({"id": "fanin-%03d" % k, "api": "graph", "nid": 1, "ops": ops}); k += 1
    run_events(ctx, "graph_histories", cs, spec="TraceApi")
    if not q:
        # every history of any length on two nodes: the complete (finite) state space, invariants only
        cfg2 = 'SPECIFICATION Spec\nCONSTANTS\n MaxNodes = 2\n MaxOps = 40\nINVARIANTS G12 G3 G4 G4f G7\nVIEW view\nCHECK_DEADLOCK FALSE\n'
        _, st = pv.run_tlc_model("MC_Graph", cfg2, ctx.work, workers=12, tag="mc_graph_complete2")
        if "error" in st:
            raise pv.ToolError("TLC failed on MC_Graph (complete, two nodes):\n" + st["error"])
        st["note"] = "complete state space of the Graph API on two nodes (no bound on the history length is reached)"
        ctx.stats["states"] += st["states"]; ctx.stats["transitions"] += st["transitions"]; ctx.stats["tlc_runs"].append(st)
    run_c18_instr(ctx)


def run_c20(ctx):
    q = ctx.tier == "quick"
    cfg = 'SPECIFICATION Spec\nCONSTANTS\n MaxN = %d\n MaxD = %d\nINVARIANTS Determinate T1 T2 T3 T4 T5 T6 Emit\nCHECK_DEADLOCK FALSE\n' % ((16, 3) if q else (40, 4))
    api_model(ctx, "MC_Topo", "mc_topo", cfg, lambda c: {"api": "topo", "ops": c["ops"]}, workers=14)
    g = gen.Gen(ctx.seed + 81, ctx.registry)
    cs = []
    for i in range(100 if q else 5000):
        n = g.r.choice([g.r.randint(1, 200), g.r.randint(1, 2000), g.r.choice([8, 27, 64, 125, 216, 343, 512, 729, 1000, 1331, 16, 81, 256, 625, 1296])])
        d = g.r.choice([1, 2, 3, 4, 1, 2, 3, 4, 7, 20, 63, 64, 65, 66, 100])
        if d > 4:
            n = g.r.randint(1, 150)
        rad = g.r.choice([0.0, 0.5, 1.0, 1.2, 1.42, 1.5, 1.74, 2.0, 2.1, 3.0, 2.5, 4.5, -1.0, float("nan")])
        rb = gen.f2b(rad)
        if i % 4 == 3:      # the floats next to an integer lattice distance, on either side (decided exactly by the specification)
            rb = gen.f2b(float(g.r.randint(1, 6))) + g.r.choice([-2, -1, 1])
        ops = [{"m": "find_neighbors", "args": [n, d, g.r.randint(0, n - 1), rb]}]
        cs.append({"id": "topo-%05d" % i, "api": "topo", "ops": ops})
    # exact d-th powers for every d up to 8 (a floating-point root may land on either side of the integer)
    for k, (n, d) in enumerate([(243, 5), (1024, 5), (3125, 5), (3124, 5), (3126, 5), (729, 6), (4096, 6), (2187, 7), (128, 7), (256, 8), (6561, 8), (32, 5), (64, 6), (81, 4), (625, 4), (2401, 4)] if q else
                               [(b ** d + o, d) for d in (3, 4, 5, 6, 7, 8, 9, 10) for b in (2, 3, 4, 5, 6, 7) for o in (-1, 0, 1) if 1 <= b ** d + o <= 20000]):
        cs.append({"id": "topo-power-%d-%d" % (n, d), "api": "topo", "ops": [{"m": "find_neighbors", "args": [n, d, n // 2, gen.f2b(rad)]} for rad in (1.0, 1.5)] +
                   [{"m": "decompose_index", "args": [n - 1, 2, d]}]})
    for k, (idx, edge, d) in enumerate([(0, 65536, 4), (5, 65536, 4), (70000, 65536, 4), (3, 256, 8), (300, 256, 8), (3, 16, 16), (3, 4, 32), (3, 2, 64), (1, 2, 64), (0, 1, 70), (7, 65535, 4), (100000, 7132, 5), (9, 2, 63)]):
        cs.append({"id": "topo-bigcube-%d" % k, "api": "topo", "ops": [{"m": "decompose_index", "args": [idx, edge, d]}]})
    for k, (n, d, i) in enumerate([(10, 64, 3), (100, 64, 3), (64, 64, 0), (65, 64, 64), (2, 64, 1), (100, 63, 3), (10, 65, 3)]):
        cs.append({"id": "topo-64dims-%d" % k, "api": "topo", "ops": [{"m": "find_neighbors", "args": [n, d, i, gen.f2b(rad)]} for rad in (1.0, 1.5)]})
    # dimension counts beyond 32 bits (encoded; see harness us()): no neighbourhood, and no endless search for the edge length
    for k, (n, d, i) in enumerate([(5, -1000, 0), (2, -1000, 1), (100, -1001, 7), (36, -1003, 35), (5, -1, 0), (9, -2, 3)]):
        cs.append({"id": "topo-hugedims-%d" % k, "api": "topo", "ops": [{"m": "find_neighbors", "args": [n, d, i, gen.f2b(1.5)]}]})
    run_events(ctx, "topo_random", cs, spec="TraceApi")
    run_c20_instr(ctx)


def parser_model(ctx, maxtoks, maxpoints):
    cfg = 'SPECIFICATION Spec\nCONSTANTS\n MaxToks = %d\n MaxPoints = %d\nINVARIANTS P2 P3 P4 EmitToks EmitTree\nCHECK_DEADLOCK FALSE\n' % (maxtoks, maxpoints)
    cases, st = pv.run_tlc_model("MC_Parser", cfg, ctx.work, workers=14, tag="mc_parser")
    if "error" in st:
        raise pv.ToolError("TLC failed on MC_Parser:\n" + st["error"])
    ctx.stats["states"] += st["states"]; ctx.stats["transitions"] += st["transitions"]; ctx.stats["tlc_runs"].append(st)
    return cases


WS_CHARS = [" ", "\t", "\n", "\r", "\u000b", "\u000c", "\u0085", "\u00a0", "\u1680", "\u2003", "\u2028", "\u3000", "  "]
ODD_TOKENS = ["(", ")", "(", ")", "INT[1,", "FLOAT[1.5,", "BOOL[1,", "INT[,", "INT[", "INT[]", "INT[1,2]", "INT[1,2}", "INT[1,,2]", "INT[\u00e9", "INT[1\u00e9", "BOOL[", "BOOL[1,0,true,false]", "BOOL[TRUE]",
              "FLOAT[", "FLOAT[1.5,-0.25]", "FLOAT[1e3,nan]", "FLOAT[x]", "\u00e9]", "\u00e9", "na\u00efve", "\u4e2d\u6587", "(x", "x)", "()", "1", "-1", "+1", "007",
              "2147483647", "2147483648", "-2147483648", "-2147483649", "1.5", "-0.125", ".5", "5.", "1e3", "1E-2", "inf", "-Infinity", "NaN", "nan", "infinit", "infinity", "Infinity", "INFINITY", "+infinity", "+inf", "-inf", "+NaN", "-nan", "iNf", "nAn", "infinityy", "INT", "FLOAT", "BOOL", "INT]", "INTEGER", "INTEGER.SQUARE", "FLOAT.SCALE", "CODE.NOSUCH", "EXEC.", ".EXEC", "NAME.x", "BOOLEAN.and", "FLOAT[1.5,NaN,2.5]", "FLOAT[nan]", "FLOAT[inf,-inf]", "1e400", "-1e400", "1e-400", "0x10", "1_000", "+.5e3", "-1E-3", "1e+2", "e5", ".e5", ".", "1.2.3", "1e", "--1",
              "TRUE", "FALSE", "true", "INTEGER.+", "CODE.QUOTE", "VERIF.PROBE", "VERIF.NOOP*WITH*A*NAME*LONGER*THAN*ANY*BUILTIN*INSTRUCTION", UMLAUT_INSTR, CUSTOM_INSTRS[3], CUSTOM_INSTRS[4], CUSTOM_INSTRS[5], CUSTOM_INSTRS[6], CUSTOM_INSTRS[7], CUSTOM_INSTRS[10], CUSTOM_INSTRS[11], CUSTOM_INSTRS[12], CUSTOM_INSTRS[13], "Integer.Max", "verif.myinstruction", "VERIFSQUAR", "2verif", "GRAPH.NODE*PREDECESSORS", "EXEC.DO*COUNT", "integer.+", "foo", "foo-bar", "x1", "[1,2]", "BOOLVECTOR.AND", "NOOP"]


def random_text(g, maxtok):
    r = g.r
    toks = []
    for _ in range(r.randint(0, maxtok)):
        k = r.random()
        if k < 0.8:
            toks.append(r.choice(ODD_TOKENS))
        elif k < 0.9:
            toks.append("".join(r.choice("ab(1)[].,-+eE\u00e9") for _ in range(r.randint(1, 8))))
        else:
            toks.append(str(g.int()))
    out = r.choice(["", " ", "\n"])
    for t in toks:
        out += t + r.choice(WS_CHARS)
    return out


def run_c03(ctx):
    q = ctx.tier == "quick"
    base = dict(ctx.get_base())
    cases = parser_model(ctx, 3 if q else 5, 1)
    cs = []
    for i, c in enumerate(cases):
        if "text" not in c:
            continue
        pre = dict(base); pre["exec"] = []
        cs.append({"id": "mcparse-%06d" % i, "pre": pre, "acts": [{"a": "parse", "text": c["text"]}]})
    run_events(ctx, "mc_parser", cs)
    g = gen.Gen(ctx.seed + 91, ctx.registry)
    cs = []
    for i in range(300 if q else 20000):
        pre = dict(base)
        pre["exec"] = [] if g.r.random() < 0.7 else [g.item(g.r.randint(1, 4))]
        cs.append({"id": "randparse-%06d" % i, "pre": pre, "acts": [{"a": "parse", "text": random_text(g, 25)}]})
    # long tokens and deep nesting (JSON nesting of the recorded tree is limited to ~120 levels; beyond
    # that only crash-freedom and the frame condition are judged)
    for i, n in enumerate([20, 100] if q else [20, 50, 100, 110, 80]):
        pre = dict(base); pre["exec"] = []
        cs.append({"id": "deep-%03d" % i, "pre": pre, "acts": [{"a": "parse", "text": "( " * n + "1 " + ") " * n}]})
        cs.append({"id": "deepopen-%03d" % i, "pre": pre, "acts": [{"a": "parse", "text": "( " * n + "1 "}]})
        cs.append({"id": "longtok-%03d" % i, "pre": pre, "acts": [{"a": "parse", "text": "x" * (n * 10) + " INT[" + "1," * n + "1] " + "9" * n}]})
    for i, n in enumerate([2000] if q else [2000, 10000, 20000]):
        pre = dict(base); pre["exec"] = []
        cs.append({"id": "verydeep-%03d" % i, "pre": pre, "acts": [{"a": "parse_summary", "text": "( " * n + "1 " + ") " * (n // 2)}]})
        cs.append({"id": "verylong-%03d" % i, "pre": pre, "acts": [{"a": "parse_summary", "text": "INT[" + "7," * n + "7] " + "y" * n + " " + ") " * 5 + "\u00e9" * n + "]"}]})
    run_events(ctx, "random_text", cs)
    # token classification does not depend on the neighbouring tokens: every instruction name next to
    # every kind of token, in both orders, bare and inside a list
    others = ["7", "-2.5", "TRUE", "INTEGER.DUP", "foo", "INT[1,2]", "(", ")", "NAME.QUOTE", "CODE.QUOTE"]
    cs = []
    for k, name in enumerate(ctx.registry + ctx.extra + CUSTOM_INSTRS):
        for j, o in enumerate(others):
            pre = dict(base); pre["exec"] = []
            text = ["%s %s", "%s %s 3", "( %s %s )", "( 1 %s %s ( b ) )"][(k + j) % 4]
            cs.append({"id": "pair-%s-%d" % (name, j), "pre": pre, "acts": [{"a": "parse", "text": text % (name, o)}]})
            cs.append({"id": "riap-%s-%d" % (name, j), "pre": pre, "acts": [{"a": "parse", "text": text % (o, name)}]})
    run_events(ctx, "token_pairs", cs)
    # an instruction set that has been in use (parsing, lookups) and is then extended: the new names are instructions from
    # then on, whatever their length
    cs = []
    late = ["VERIF.LATE*ADDITION*" + "X" * 130, "VERIF.LATE", "\u041f\u041e\u0417\u0414\u041d\u041e.\u0414\u041e\u0411\u0410\u0412\u041b\u0415\u041d\u041d\u0410\u042f*\u0418\u041d\u0421\u0422\u0420\u0423\u041a\u0426\u0418\u042f"]
    pre = dict(base); pre["exec"] = []
    acts = [{"a": "parse", "text": "( 1 INTEGER.DUP foo VERIF.PROBE )"}]
    for nm in late:
        acts += [{"a": "add_instr", "name": nm}, {"a": "parse", "text": "( %s 2 ( x %s ) ) %s" % (nm, nm, nm)}, {"a": "steps", "k": 3}]
    cs.append({"id": "lateadd", "pre": pre, "acts": acts})
    run_events(ctx, "late_additions", cs)
    # balanced texts nested deeper than an event can carry (and than any limit one might think of): the text the harness
    # builds for ( n ( n-1 ( ... ( 1 7 ) ... ) ) ) is parsed into ONE item that prints as that text again - every level is there
    cs = []
    for n in ((300, 1023, 1024, 1025, 1100, 1500) if q else (1, 2, 100, 255, 256, 257, 511, 512, 513, 1000, 1023, 1024, 1025, 1026, 1100, 1500, 2000)):
        cs.append({"id": "deeptext-%04d" % n, "pre": gen.empty_state(), "acts": [{"a": "roundtrip", "deep": n}]})
    run_events(ctx, "deep_texts", cs)


def run_c11(ctx):
    q = ctx.tier == "quick"
    cases = parser_model(ctx, 1, 5 if q else 6)
    cs = []
    for i, c in enumerate(cases):
        if "tree" not in c:
            continue
        s = gen.empty_state()
        s["exec"] = [c["tree"]]
        s["code"] = [c["tree"], {"k": "int", "v": 5}]
        s["int"] = [3, -4]
        s["bool"] = [True, False]
        cs.append({"id": "mctree-%06d" % i, "pre": s, "acts": [{"a": "roundtrip"}, {"a": "print"}, {"a": "steps", "k": 1}] if i % 50 else
                   [{"a": "roundtrip"}, {"a": "print"}]})
    run_events(ctx, "mc_trees", cs)
    # random trees: parser-producible atoms, floats of every kind (exact round trip at the printed precision)
    g = gen.Gen(ctx.seed + 95, ctx.registry)
    cs = []
    def tree(points):
        if points <= 1:
            k = g.r.random()
            if k < 0.25: return {"k": "int", "v": g.int()}
            if k < 0.4: return {"k": "bool", "v": g.r.random() < 0.5}
            if k < 0.6: return {"k": "float", "v": g.float()}
            if k < 0.8: return {"k": "ins", "v": g.r.choice(ctx.registry if g.r.random() < 0.9 else CUSTOM_TREE)}
            return {"k": "id", "v": g.r.choice(["a", "foo", "x1", "foo-bar", "na\u00efve", "q.r", "T", "inf1", "noop", "integer.+", "exec.if", "Code.Dup", "true", "nan1"])}
        rest, kids = points - 1, []
        while rest > 0:
            k = g.r.randint(1, rest); kids.append(tree(k)); rest -= k
        return {"k": "list", "v": kids}
    for i in range(200 if q else 50000):
        s = gen.empty_state()
        t = tree(g.r.randint(1, 25))
        s["exec"] = [t]
        s["code"] = [t]
        # CODE.PRINT is exercised through the step (the spec models the printed NAME for float-free code)
        s["exec"].append({"k": "ins", "v": "CODE.PRINT"})
        cs.append({"id": "randtree-%06d" % i, "pre": s, "acts": [{"a": "roundtrip"}, {"a": "print"}, {"a": "steps", "k": 2 if t["k"] != "list" else 1}]})
    run_events(ctx, "random_trees", cs)
    # source texts: whatever tree the implementation's parser makes of a text (any white space, odd tokens) is built from
    # parser-producible names by construction, and must survive print -> parse as well
    cs = []
    for i in range(150 if q else 20000):
        toks = [t for t in (g.r.choice(ODD_TOKENS) for _ in range(g.r.randint(0, 12))) if "[" not in t and "(" not in t and ")" not in t]
        text = "( " + "".join(t + g.r.choice(WS_CHARS) for t in toks) + " )"
        if i % 3 == 0:      # white space of every kind right next to the ends of a list and of the program
            w = g.r.choice(WS_CHARS)
            text = "( alpha ( beta gamma%s ) 7 ( %sdelta INTEGER.+ ) omega%s )" % (w, g.r.choice(WS_CHARS), g.r.choice(WS_CHARS))
        cs.append({"id": "srctree-%06d" % i, "pre": gen.empty_state(), "acts": [{"a": "parse", "text": text}, {"a": "roundtrip", "src": True}, {"a": "print"}]})
    for n in ((60, 127, 128, 129, 200, 300, 511, 512, 513, 700, 1025, 1500) if q else (1, 2, 55, 56, 100, 126, 127, 128, 129, 130, 200, 255, 256, 257, 300, 500, 511, 512, 513, 1000, 1023, 1024, 1025, 2000)):
        cs.append({"id": "deeptree-%04d" % n, "pre": gen.empty_state(), "acts": [{"a": "roundtrip", "deep": n}]})
    run_events(ctx, "source_texts", cs)
    # every instruction next to every kind of atom (the printed neighbours of a token must not change how it reads)
    atoms = [{"k": "int", "v": 7}, {"k": "float", "v": gen.f2b(-2.5)}, {"k": "bool", "v": True}, {"k": "ins", "v": "INTEGER.DUP"},
             {"k": "id", "v": "foo"}, {"k": "ivec", "v": [1, 2]}, {"k": "list", "v": []}, {"k": "ins", "v": "NAME.QUOTE"}]
    cs = []
    for k, name in enumerate(ctx.registry + ctx.extra + CUSTOM_TREE):
        for j, a in enumerate(atoms):
            s = gen.empty_state()
            kids = [{"k": "ins", "v": name}, a] if (k + j) % 2 else [a, {"k": "ins", "v": name}]
            s["exec"] = [{"k": "list", "v": kids + ([{"k": "int", "v": 1}] if j % 3 == 0 else [])}]
            cs.append({"id": "pairtree-%s-%d" % (name, j), "pre": s, "acts": [{"a": "roundtrip"}]})
            s2 = gen.empty_state()
            s2["exec"] = [{"k": "list", "v": [{"k": "ins", "v": name}, a, {"k": "list", "v": [a, {"k": "ins", "v": name}]}]}]
            cs.append({"id": "pairtree2-%s-%d" % (name, j), "pre": s2, "acts": [{"a": "roundtrip"}]})
    # lists with many direct elements (printing is not abbreviated at any length)
    for n in ([63, 64, 65, 90, 200] if q else [63, 64, 65, 66, 90, 127, 128, 129, 200, 255, 256, 257, 1000]):
        for inner in (False, True):
            s = gen.empty_state()
            kids = [{"k": "int", "v": j} if j % 3 else {"k": "id", "v": "n%d" % j} for j in range(n)]
            t = {"k": "list", "v": kids} if not inner else {"k": "list", "v": [{"k": "int", "v": 1}, {"k": "list", "v": kids}, {"k": "ins", "v": "NOOP"}]}
            s["exec"] = [t]; s["code"] = [t]
            s["int"] = list(range(n))
            cs.append({"id": "widelist-%d-%s" % (n, inner), "pre": s, "acts": [{"a": "roundtrip"}, {"a": "print"}]})
            s2 = gen.empty_state(); s2["code"] = [t]; s2["exec"] = [{"k": "ins", "v": "CODE.PRINT"}]
            cs.append({"id": "widelist-print-%d-%s" % (n, inner), "pre": s2, "acts": [{"a": "step"}]})
    run_events(ctx, "instruction_pairs", cs)
    # every tree emitted by pushr's own random code generator
    gcases = [{"id": "gen-%05d" % i, "api": "gen", "ops": [{"m": "random_code_with_size", "args": [ctx.registry, g.r.randint(1, 40)]} for _ in range(10)]} for i in range(20 if q else 1500)]
    # ... whatever state the generator is handed: strings that are no tokens waiting on the NAME stack (left by NAME.CAT,
    # CODE.PRINT, GRAPH.PRINT), bound names or none, every new-name probability
    for i in range(12 if q else 300):
        st = gen.empty_state()
        st["name"] = ["( 1 2 )", "alpha beta", "", " ", "x)", "INT[1,2]", "7"]
        st["bind"] = {} if i % 3 else {"a": {"k": "int", "v": 1}}
        st["cfg"]["new_name_p"] = [0, gen.f2b(0.5), gen.f2b(1.0), 981668463][i % 4]
        gcases.append({"id": "genst-%05d" % i, "api": "gen", "state": st, "ops": [{"m": "random_code_with_size", "args": [ctx.registry if i % 2 else [], g.r.randint(1, 40)]} for _ in range(10)]})
    gp = os.path.join(ctx.work, "gen_items.cases.ndjson"); ge = os.path.join(ctx.work, "gen_items.events.ndjson")
    with open(gp, "w") as f:
        for c in gcases: f.write(json.dumps(c) + "\n")
    pv.exec_cases(gp, ge)
    cs = []
    for line in open(ge):
        e = json.loads(line)
        if e.get("ret", {}).get("t") == "some":
            s = gen.empty_state(); s["exec"] = [e["ret"]["v"]]
            # (every name the generator emits counts as producible: "also for every t emitted by the random code generator")
            cs.append({"id": "gentree-%s-%d" % (e["id"], e["i"]), "pre": s, "acts": [{"a": "roundtrip", "src": True}, {"a": "print"}]})
    run_events(ctx, "generated_trees", cs)


def rand_model(ctx, n):
    cfg = 'SPECIFICATION Spec\nCONSTANTS\n MaxSize = %d\nINVARIANTS CodeContract BoundContract DecomposeContract BoolVecContract\nCHECK_DEADLOCK FALSE\n' % n
    cases, st = pv.run_tlc_model("MC_Rand", cfg, ctx.work, workers=6, tag="mc_rand")
    if "error" in st:
        raise pv.ToolError("TLC failed on MC_Rand:\n" + st["error"])
    ctx.stats["states"] += st["states"]; ctx.stats["transitions"] += st["transitions"]; ctx.stats["tlc_runs"].append(st)


def run_c12(ctx):
    import math
    q = ctx.tier == "quick"
    rand_model(ctx, 5 if q else 6)
    g = gen.Gen(ctx.seed + 101, ctx.registry)
    N = 12 if q else 60
    draws = 8 if q else 120
    cs = []
    k = 0
    for ilist in ([], ["INTEGER.+"], ["EXEC.CMD"], ["CODE.RAND"], ["EXEC.CMD", "BOOLEAN.AND"], ctx.registry):
        for bound in ({}, {"a": {"k": "int", "v": 1}, "b": {"k": "bool", "v": True}, "c": {"k": "list", "v": []}},
                      {"x": {"k": "int", "v": 2}, "y": {"k": "int", "v": 3}, "zz": {"k": "list", "v": []}}, {"a": {"k": "int", "v": 1}, "q": {"k": "int", "v": 3}, "c": {"k": "list", "v": []}}):
            # (probabilities outside [0, 1] and NaN are configuration values like any other: only sizes and leaves are judged)
            for pbits, pzero in ((0, True), (981668463, False), (gen.f2b(1.0), False), (gen.f2b(1.5), False), (gen.f2b(-0.25), False), (2143289344, False), (gen.f2b(float("inf")), False)):
                st = gen.empty_state(); st["bind"] = bound; st["cfg"]["new_name_p"] = pbits
                # nothing but the binding table, the instruction list and the new-name probability may shape the
                # program: unbound names waiting on the NAME stack, other stacks, the RAND bounds of other types
                st["name"] = ["pending-one", "pending-two"]; st["int"] = [7]; st["code"] = [{"k": "id", "v": "lurking"}]
                if k % 5 == 4:       # empty and reversed intervals (the leaves of generated code are any integer, floats in [0, 1))
                    st["cfg"].update(min_f=gen.f2b(2.0), max_f=gen.f2b(2.0), min_i=5, max_i=5) if k % 2 else st["cfg"].update(min_f=gen.f2b(3.0), max_f=gen.f2b(-3.0), min_i=7, max_i=-7)
                elif k % 2:
                    st["cfg"].update(min_f=gen.f2b(-8.0), max_f=gen.f2b(8.0), min_i=100, max_i=200)
                elif k % 4 == 2:
                    st["cfg"].update(min_f=gen.f2b(-4.0), max_f=gen.f2b(-1.0), min_i=-7, max_i=-3)
                ops = []
                for n in range(1, N + 1):
                    for _ in range(max(1, draws // 4)):
                        ops.append({"m": "random_code_with_size", "args": [ilist, n, sorted(bound), pzero]})
                for m in range(0, N + 1):
                    for _ in range(max(1, draws // 4)):
                        ops.append({"m": "random_code", "args": [ilist, m, sorted(bound), pzero]})
                if len(ilist) < 3:       # ... and the same through the instruction CODE.RAND handed that list
                    for m in list(range(0, N + 1)) + [25]:
                        for _ in range(max(1, draws // 4)):
                            ops.append({"m": "code_rand_instr", "args": [ilist, m, sorted(bound), pzero]})
                cs.append({"id": "gencode-%03d" % k, "api": "gen", "state": st, "ops": ops}); k += 1
    ops = [{"m": "decompose", "args": [n]} for n in range(1, N + 1) for _ in range(draws)]
    cs.append({"id": "decompose", "api": "gen", "ops": ops})
    run_events(ctx, "gen_code", cs, spec="TraceApi")
    # CODE.RAND through the interpreter: limits around 0, 1, 2, the configured maximum, negative, extreme
    cs = []
    for i in range(150 if q else 6000):
        s = g.state(depth=2)
        s["cfg"]["max_rand_points"] = g.r.choice([25, 25, 25, 0, 1, 2, 3, -25, 60, 2147483647, -2147483648])
        s["int"] = [g.r.choice([0, 1, 2, 3, 5, 24, 25, 26, 100, -1, -2, -30, 2147483647, -2147483648])] + s["int"]
        if abs(s["cfg"]["max_rand_points"]) > 2000 and abs(s["int"][0]) > 2000:
            s["int"][0] = 7
        s["exec"] = [ins("CODE.RAND")]
        cs.append({"id": "coderand-%05d" % i, "pre": s, "acts": [{"a": "step"}]})
    run_events(ctx, "code_rand", cs)
    # every generated program is executable (C01) and printable (C11)
    cs = []
    ep = os.path.join(ctx.work, "gen_code.events.ndjson")
    items = []
    for line in open(ep):
        e = json.loads(line)
        if e["act"]["m"].startswith("random_code") and e.get("ret", {}).get("t") == "some" and len(e["act"]["args"][0]) > 1:
            items.append(e["ret"]["v"])
    g.r.shuffle(items)
    for i, it in enumerate(items[: (150 if q else 5000)]):
        s = g.state(depth=2); s["exec"] = [it]
        cs.append({"id": "genprog-%05d" % i, "pre": s, "acts": [{"a": "roundtrip"}, {"a": "steps", "k": 150}]})
    run_events(ctx, "generated_programs", cs)


def run_c13(ctx):
    import math
    q = ctx.tier == "quick"
    rand_model(ctx, 5 if q else 6)
    g = gen.Gen(ctx.seed + 111, ctx.registry)
    fb = gen.f2b
    N = 12 if q else 40
    draws = 5 if q else 200
    ops = []
    sps = [0.0, 0.05, 0.12, 0.25, 0.5, 0.51, 0.75, 0.85, 1.0, -0.1, 1.5, float("nan"), float("inf"), -0.0,
           # marginally outside / inside [0, 1]: the next floats beyond the ends, less than half a percent off
           gen.b2f(gen.f2b(1.0) + 1), 1.004, 1.0049, 1.006, -0.004, -1e-38, -1e-45, gen.b2f(gen.f2b(1.0) - 1), 0.996, 0.004, 1e-38]
    for n in list(range(0, N + 1)) + [-1, -5, 100, 1000]:
        for sp in sps:
            for _ in range(draws if n <= N else 1):
                ops.append({"m": "random_bool_vector", "args": [n, fb(sp)]})
    for n in range(2, (10 if q else 30)):
        for sp in (0.1, 0.3, 0.5):
            ops.append({"m": "random_bool_vector_cover", "args": [n, fb(sp), int((30 + math.log(n)) * n) + 1]})
    # long vectors: the number of TRUE bits is exact however many positions have to be drawn
    for n, sp in ((1 << 16, 0.5), (1 << 20, 0.25), (1 << 24, 0.5), (3000001, 0.75), (-7, 0.5)) if q else \
            ((1 << 16, 0.5), (1 << 20, 0.25), (1 << 24, 0.5), (1 << 24, 0.5), (1 << 25, 0.5), (3000001, 0.75), (1 << 22, 0.75), (-7, 0.5)):
        ops.append({"m": "random_bool_vector_count", "args": [n, fb(sp)]})
    for n in [0, 1, 2, 5, N, -1]:
        for (lo, hi) in [(0, 1), (0, 2), (-3, 4), (5, 5), (7, 3), (-2147483648, 2147483647), (2147483646, 2147483647), (-10, 10)]:
            for _ in range(draws):
                ops.append({"m": "random_int_vector", "args": [n, lo, hi]})
    for (lo, hi) in [(0, 2), (-3, 4), (0, 10)]:
        ops.append({"m": "random_int_vector_stats", "args": [5, lo, hi, 6 * 30 * (hi - lo)]})
    for n in [0, 1, 3, N, -1, -100]:
        for mean in (0.0, 1.5, -2.0, float("inf"), float("nan")):
            for sd in (0.0, 0.5, 2.0, -1.0, -0.0, float("inf"), float("nan"), float("-inf"), 1e-40, 1.4e-45, 1.1754944e-38, 3.4028235e38, -1e-40):
                for _ in range(max(1, draws // 5)):
                    ops.append({"m": "random_float_vector", "args": [n, fb(mean), fb(sd)]})
    cs = [{"id": "genvec", "api": "gen", "ops": ops}]
    # INTEGER.RAND / FLOAT.RAND / RANDBOUNDNAME generators under various configurations
    k = 0
    for (lo, hi) in [(-10, 10), (0, 1), (0, 2), (5, 5), (7, 3), (-2147483648, 2147483647), (3, 4)]:
        # the last intervals are a few ulps wide: a generator that rounds can return the excluded upper bound
        for (flo, fhi) in [(-1.0, 1.0), (0.0, 0.5), (2.0, 2.0), (3.0, -3.0), (-0.0, 0.0), (16777216.0, 16777218.0),
                           (1.0, 1.0000001192092896), (-16777218.0, -16777216.0), (1000000.0, 1000000.25), (0.0, 1e-45),
                           # intervals wider than the largest float, and infinite bounds (no uniform value exists: nothing, never a crash)
                           (-3.4028234663852886e38, 3.4028234663852886e38), (-3e38, 3e38), (float("-inf"), 1.0), (0.0, float("inf")), (float("-inf"), float("inf"))]:
            st = gen.empty_state(); st["cfg"].update(min_i=lo, max_i=hi, min_f=fb(flo), max_f=fb(fhi))
            o = [{"m": "random_integer", "args": [lo, hi]} for _ in range(draws)] + [{"m": "random_float", "args": [fb(flo), fb(fhi)]} for _ in range(draws)]
            o.append({"m": "random_float_many", "args": [fb(flo), fb(fhi), 200]})
            if hi - lo in (1, 2, 20):
                o.append({"m": "random_integer_stats", "args": [lo, hi, 30 * (hi - lo) + 30]})
            cs.append({"id": "genscalar-%03d" % k, "api": "gen", "state": st, "ops": o}); k += 1
    for bound in ({}, {"a": {"k": "int", "v": 1}}, {"a": {"k": "int", "v": 1}, "b": {"k": "bool", "v": True}, "zz": {"k": "list", "v": []}},
                  # names no parser produces (NAME.CAT joins with a blank; the empty name) are bound names all the same
                  {"ALPHA BETA": {"k": "int", "v": 7}, "GAMMA DELTA": {"k": "int", "v": 9}}, {"": {"k": "int", "v": 1}}, {"x y": {"k": "bool", "v": True}}, {"INTEGER.+": {"k": "int", "v": 4}, "NOOP": {"k": "int", "v": 5}, "VERIF.PROBE": {"k": "int", "v": 6}},
                  {"\u00e9t\u00e9": {"k": "int", "v": 1}, "( a )": {"k": "int", "v": 2}, "7": {"k": "int", "v": 3}, "INTEGER.+": {"k": "int", "v": 4}}):
        for pnew in (0.001, 0.5, 1.0, 0.0):      # the probability of a NEW name must not leak into the choice of a BOUND name
            st = gen.empty_state(); st["bind"] = bound; st["cfg"]["new_name_p"] = fb(pnew)
            cs.append({"id": "genname-%d-%s" % (len(bound), pnew), "api": "gen", "state": st, "ops": [{"m": "existing_random_name", "args": [sorted(bound)]} for _ in range(draws * 4)] + [{"m": "new_random_name", "args": []}]})
    run_events(ctx, "gen_values", cs, spec="TraceApi")
    # the RAND instructions through the interpreter
    mc_stage(ctx, "rand_instr", RAND, dict(IntVals=[-1, 0, 1, 3, 5], FloatVals=[F["zero"], F["h"], F["one"], F["x15"], F["mone"], F["nan"], F["inf"]], DInt=3, DFloat=2))
    cs = []
    for i in range(100 if q else 30000):
        s = g.state(depth=3)
        name = g.r.choice(RAND)
        s["int"] = [g.r.choice([0, 1, 2, 5, 17, -1, -3])] + [g.r.randint(-5, 20) for _ in range(2)] + s["int"]
        s["float"] = [g.r.choice([fb(x) for x in (0.0, 0.3, 0.5, 0.9, 1.0, 1.2, -0.5, 2.0)] + [fb(float("nan"))]), g.float()] + s["float"]
        s["exec"] = [ins(name)]
        if g.r.random() < 0.5:
            s["cfg"]["new_name_p"] = fb(g.r.choice([0.5, 1.0, 0.0, 0.9]))
        if g.r.random() < 0.2:
            s["cfg"]["min_f"], s["cfg"]["max_f"] = g.r.choice([(fb(16777216.0), fb(16777218.0)), (fb(1.0), fb(1.0000001192092896)), (fb(-2.0), fb(-1.9999998)),
                                                               (fb(-3.4028234663852886e38), fb(3.4028234663852886e38)), (fb(float("-inf")), fb(2.0)), (fb(-3e38), fb(float("inf")))])
        cs.append({"id": "randins-%05d" % i, "pre": s, "acts": [{"a": "step"}]})
    for k, bound in enumerate(({"INTEGER.+": {"k": "int", "v": 4}}, {"NOOP": {"k": "int", "v": 5}, "VERIF.PROBE": {"k": "int", "v": 6}, "CODE.DUP": {"k": "bool", "v": True}},
                              {"x y": {"k": "int", "v": 1}}, {"": {"k": "int", "v": 1}}, {"INTEGER.+": {"k": "int", "v": 4}, "plain": {"k": "int", "v": 1}})):
        for j in range(3 if q else 40):
            s = gen.empty_state()
            s["bind"] = bound; s["name"] = ["waiting"]
            s["exec"] = [ins("NAME.RANDBOUNDNAME")]
            cs.append({"id": "boundnames-%d-%d" % (k, j), "pre": s, "acts": [{"a": "step"}]})
    for k, name in enumerate(RAND):          # draws accumulate: the thousand-and-first result is as good as the first
        s = gen.empty_state()
        s["bvec"] = [[True]] * 1000; s["ivec"] = [[1]] * 1000; s["fvec"] = [[fb(1.0)]] * 1000
        s["int"] = [3, 0, 5] + [1] * 1000; s["float"] = [fb(0.5), fb(1.0)] + [fb(2.0)] * 1000; s["bool"] = [True] * 1000; s["name"] = ["n"] * 1000
        s["bind"] = {"a": {"k": "int", "v": 1}}
        s["exec"] = [ins(name)]
        cs.append({"id": "crowdedrand-%d" % k, "pre": s, "acts": [{"a": "step"}]})
    run_events(ctx, "rand_instructions", cs)


def validate_file(ctx, stage, path, spec="TraceApi", chunk=4000):
    vs, n, paths = pv.validate_events(path, os.path.join(ctx.work, "val_" + stage), spec=spec, chunk=chunk)
    ctx.paths[stage] = paths
    ctx.stats["events"] += n
    ctx.stats["stages"].append(dict(stage=stage, events=n, non_ideal=len(vs)))
    for v in vs:
        ctx.verdicts.append((stage, v))
    return n


def run_c14(ctx):
    q = ctx.tier == "quick"
    # (A) the concurrency model: atomic counter => unique ids on all interleavings; the non-atomic twin must fail
    for atomic, expect_ok in (("TRUE", True), ("FALSE", False)):
        cfg = 'SPECIFICATION Spec\nCONSTANTS\n T = 3\n K = %d\n Atomic = %s\nINVARIANTS UniqueIds IncreasingPerThread\nPROPERTY NonInterference\nCHECK_DEADLOCK FALSE\n' % (2 if q else 3, atomic)
        cp = os.path.join(ctx.work, "conc_%s.cfg" % atomic)
        open(cp, "w").write(cfg)
        r = pv.run(["timeout", "900", "tlc", "-workers", "8", "-config", cp, "-metadir", os.path.join(ctx.work, "st_conc"), "-cleanup", "-noGenerateSpecTE", "PushConc.tla"], cwd=pv.SPEC, env=pv.tlc_env())
        ok = "No error has been found" in r.stdout
        m = pv.TLC_STATS.search(r.stdout)
        st = dict(tag="PushConc Atomic=" + atomic, states=int(m.group(2)) if m else 0, transitions=int(m.group(1)) if m else 0, expected="holds" if expect_ok else "UniqueIds violated (sensitivity twin)", ok=ok)
        ctx.stats["tlc_runs"].append(st)
        if expect_ok:
            ctx.stats["states"] += st["states"]; ctx.stats["transitions"] += st["transitions"]
        if ok != expect_ok or (not expect_ok and "Invariant UniqueIds is violated" not in r.stdout):
            raise pv.ToolError("PushConc with Atomic=%s did not behave as expected:\n%s" % (atomic, r.stdout[-2000:]))
    # (A') the same statement for ANY number of threads and nodes: TLAPS proof of the inductive invariant
    pdir = os.path.join(ctx.work, "tlaps")
    os.makedirs(pdir, exist_ok=True)
    for f in ("PushConc.tla", "PushConcProof.tla"):
        shutil.copy(os.path.join(pv.SPEC, f), pdir)
    r = pv.run(["timeout", "900", "tlapm", "--threads", "8", "--cleanfp", "PushConcProof.tla"], cwd=pdir)
    m = re.search(r"All (\d+) obligations? proved", r.stdout)
    if not m:
        raise pv.ToolError("tlapm did not prove PushConcProof.tla:\n" + r.stdout[-2000:])
    ctx.stats["tlc_runs"].append(dict(tag="TLAPS PushConcProof (UniqueIds for any T, K; atomic protocol)", obligations_proved=int(m.group(1))))
    # (C1) determinism: the same programs alone, beside 15 other threads, in other orders, in the optimised build
    reg = [n for n in RANDFREE(ctx.registry) if n != "GRAPH.NODE*ADD"]
    g = gen.Gen(ctx.seed + 121, reg)
    cases = []
    for i in range(150 if q else 12000):
        s = g.program_state(g.r.randint(1, 40))
        cases.append({"id": "det-%05d" % i, "pre": s, "steps": 150})
    # every RAND-free instruction in random states with small operands (history- and thread-dependence of a
    # single instruction shows as different results for the same case in different execution orders)
    for c in random_instr_cases(ctx, [n for n in reg], 2 if q else 25, ctx.seed + 123, prefix="detins", small_ints=True, registry=reg):
        cases.append({"id": c["id"], "pre": c["pre"], "steps": 3})
    for i in range(40 if q else 1500):
        s = g.state(depth=2)
        # drawn from small sets, so that equal queries (valid and invalid ones) meet in every order
        # operands top first: (value position for *VALS,) size, index, dimensions; every fifth case has exactly 64 dimensions
        # after clamping (strides up to 2^63: arithmetic that wraps in one build profile and traps in the other)
        name = g.r.choice(NEIGH)
        size, dims = (g.r.choice([64, 100, 70]), g.r.choice([64, 64, 65, 100])) if i % 5 == 0 else (g.r.choice([4, 9, 16, 17]), g.r.choice([0, 1, 2, 3, 70]))
        if i % 5 == 0 and dims > size:
            size = 64
        s["int"] = ([g.r.randint(0, 3)] if name != NEIGH[0] else []) + [size, g.r.choice([0, 3, 8]), dims, g.r.randint(0, 3)] + s["int"]
        s["float"] = [gen.f2b(g.r.choice([0.0, 1.0, 1.5, 2.0]))] + s["float"]
        s["exec"] = [ins(name)]
        cases.append({"id": "detnb-%05d" % i, "pre": s, "steps": 2})
    # element-wise vector instructions with offsets at the ends of the integer range (arithmetic that wraps in one
    # build profile and traps in the other gives different final states)
    k = 0
    for name in reg:
        if name.split(".")[0] in ("BOOLVECTOR", "INTVECTOR", "FLOATVECTOR") and name.split(".", 1)[1] in ("AND", "OR", "NOT", "+", "-", "*", "/", "GET", "SET", "ROTATE", "SHOVE", "YANK", "YANKDUP"):
            for ofs in (2147483647, 2147483646, -2147483648, -2147483647):
                s = gen.empty_state()
                s["bvec"] = [[True, False, True], [False, True, True, False]]
                s["ivec"] = [[1, 2, 3], [4, 5, 6, 7]]
                s["fvec"] = [[gen.f2b(1.0), gen.f2b(2.0), gen.f2b(0.5)], [gen.f2b(4.0), gen.f2b(8.0), gen.f2b(1.5), gen.f2b(3.0)]]
                s["int"] = [ofs, ofs, 2]; s["float"] = [gen.f2b(2.0)]; s["bool"] = [True]
                s["exec"] = [ins(name)]
                cases.append({"id": "detofs-%04d" % k, "pre": s, "steps": 2}); k += 1
    # several hundred searches that SUCCEED deep inside nested lists, on every thread and in every order (state that a
    # search leaves behind outside the PushState shows in the answers of the later ones)
    I = lambda v: {"k": "int", "v": v}
    idn = lambda v: {"k": "id", "v": v}
    nest = lambda d, x: x if d == 0 else lst([I(d), nest(d - 1, x), idn("pad%d" % d)])
    for i in range(480 if q else 2400):
        d = 2 + (i // 16) % 5
        needle = [I(77), idn("needle"), lst([I(1), I(2)]), ins("NOOP")][i % 4]
        s = gen.empty_state()
        s["code"] = [needle, nest(d, needle)] if i % 2 else [nest(d, needle), needle]
        s["exec"] = [ins(["CODE.CONTAINS", "CODE.MEMBER", "CODE.POSITION", "CODE.CONTAINER"][(i // 4) % 4])]
        cases.append({"id": "detfind-%05d" % i, "pre": s, "steps": 2})
    # histories on the queues and the graph stack (earlier traffic must not show in a later run on an equal state)
    for c in io_sequence_cases(ctx, 40 if q else 1500) + graph_sequence_cases(ctx, 20 if q else 800):
        body = [x for x in c["pre"]["exec"] if not (x.get("k") == "ins" and (x["v"].endswith(".RAND") or x["v"] in NONDET or x["v"] == "GRAPH.NODE*ADD"))]
        pre = dict(c["pre"]); pre["exec"] = body
        pre.pop("rot", None)          # the rotation is chosen per thread by the driver
        cases.append({"id": "dethist-" + c["id"], "pre": pre, "steps": 150})
    cp = os.path.join(ctx.work, "det.cases.ndjson")
    with open(cp, "w") as f:
        for c in cases: f.write(json.dumps(c) + "\n")
    pv.build_harness("release")
    outs = []
    for prof, T in (("dev", 1), ("dev", 16), ("release", 4)):
        op = os.path.join(ctx.work, "det_%s_%d.ndjson" % (prof, T))
        r = pv.run(["timeout", "1800", pv.bin_path("pv-conc", prof), "det", cp, op, str(T)])
        if r.returncode != 0:
            raise pv.ToolError("pv-conc det failed: " + r.stdout[-1000:])
        outs.append((prof, T, op))
    merged = {}
    for prof, T, op in outs:
        for line in open(op):
            e = json.loads(line)
            for r in e["runs"]:
                r["profile"] = prof; r["threads"] = T
            if e["id"] in merged:
                merged[e["id"]]["runs"].extend(e["runs"])
            else:
                merged[e["id"]] = e
    mp = os.path.join(ctx.work, "det.events.ndjson")
    with open(mp, "w") as f:
        for e in merged.values(): f.write(json.dumps(e) + "\n")
    ctx.stats["cases_replayed"] += len(cases)
    validate_file(ctx, "determinism", mp, chunk=300)
    e0 = next(iter(merged.values()))
    ctx.samples.append({"stage": "determinism", "case": e0["id"], "runs": [(r["profile"], r["threads"], r["thread"], r.get("steps")) for r in e0["runs"]][:8]})
    # (C2) node ids under concurrent creation
    ip = os.path.join(ctx.work, "ids.events.ndjson")
    r = pv.run(["timeout", "1800", pv.bin_path("pv-conc", "release"), "ids", ip, "16", "1250" if q else "5000", "8" if q else "125"])
    if r.returncode != 0:
        raise pv.ToolError("pv-conc ids failed: " + r.stdout[-1000:])
    validate_file(ctx, "node_ids", ip, chunk=8)
    # (C3) the command-line front end against the library
    bdir = os.path.join(pv._target_root(), "repo-bin")
    r = pv.run(["cargo", "build", "--offline", "--manifest-path", os.path.join(pv.REPO, "Cargo.toml"), "--bin", "pushr", "--target-dir", bdir])
    if r.returncode != 0:
        raise pv.ToolError("building the pushr binary failed:\n" + r.stdout[-2000:])
    loopy = {"EXEC.Y", "EXEC.LOOP", "CODE.LOOP", "INTVECTOR.LOOP", "CODE.DO", "CODE.DO*", "EXEC.DUP"}
    toks = [n for n in reg if n not in loopy]
    cs = []
    for i in range(15 if q else 1200):
        parts, depth = [], 0
        for _ in range(g.r.randint(1, 30)):
            k = g.r.random()
            if k < 0.5: parts.append(g.r.choice(toks))
            elif k < 0.7: parts.append(str(g.r.randint(-5, 9)))
            elif k < 0.78: parts.append(g.r.choice(["TRUE", "FALSE", "1.5", "-0.25", "foo", "x1", "INT[1,2,3]", "BOOL[1,0]", "FLOAT[0.5,2]"]))
            elif k < 0.9: parts.append("("); depth += 1
            elif depth > 0: parts.append(")"); depth -= 1
        parts += [")"] * depth
        # half of the programs are bare sequences of top-level items (no enclosing list)
        cs.append({"id": "cli-%04d" % i, "text": ("( " + " ".join(parts) + " )") if i % 2 == 0 else " ".join(parts)})
    # (the last ones: instructions that consult the instruction cache they are handed - the front end builds its own)
    for i, t in enumerate(["1 2 INTEGER.+", "CODE.POP CODE.POP CODE.DO* 3 4", "( 1 ) ( 2 ) CODE.APPEND 7", "a b c CODE.CAR", "",
                           "( CODE.FLUSH CODE.QUOTE INTEGER.+ CODE.PRINT CODE.POP 3 4 CODE.FROMNAME CODE.DO )",
                           "( CODE.QUOTE NOOP CODE.PRINT CODE.FROMNAME CODE.DO 5 NAME.QUOTE x INTEGER.DEFINE x )",
                           "( 3 CODE.RAND CODE.LENGTH 0 INTEGER.> )"][:7]):
        cs.append({"id": "cli-bare-%d" % i, "text": t})
    clp = os.path.join(ctx.work, "cli.cases.ndjson")
    with open(clp, "w") as f:
        for c in cs: f.write(json.dumps(c) + "\n")
    cle = os.path.join(ctx.work, "cli.events.ndjson")
    r = pv.run(["timeout", "3000", pv.bin_path("pv-conc", "dev"), "cli", os.path.join(bdir, "debug", "pushr"), clp, cle])
    if r.returncode != 0:
        raise pv.ToolError("pv-conc cli failed: " + r.stdout[-1000:])
    validate_file(ctx, "cli", cle, chunk=100)
    # the same programs as chains of library steps validated against Step, with the blocks the front end
    # prints judged as renderings (PushText) of those states
    binpath = os.path.join(bdir, "debug", "pushr")
    cs2 = []
    for c in cs:
        pre = gen.empty_state()
        pre["bind"] = {"BIN": {"k": "id", "v": binpath}}
        cs2.append({"id": "cliref-" + c["id"], "pre": pre, "acts": [{"a": "parse", "text": c["text"]}, {"a": "copy_to_code"},
                                                                     {"a": "steps", "k": 300}, {"a": "cli", "text": c["text"]}]})
    run_events(ctx, "cli_refinement", cs2, env={"PV_CLI_BIN": binpath})


def run_c15(ctx):
    q = ctx.tier == "quick"
    # (A) the cost model on the specification: unbounded cost only where listed; cases for replay
    cfg = 'SPECIFICATION Spec\nCONSTANTS\n Mode = "cost"\nINVARIANTS CostInv Emit\nCHECK_DEADLOCK FALSE\n'
    cases, st = pv.run_tlc_model("MC_Cost", cfg, ctx.work, workers=8, tag="mc_cost")
    if "error" in st:
        raise pv.ToolError("TLC failed on MC_Cost:\n" + st["error"])
    ctx.stats["states"] += st["states"]; ctx.stats["transitions"] += st["transitions"]; ctx.stats["tlc_runs"].append(st)
    # the doubling programs: PointsInv is expected to fail on the faithful model (documents F-MAXPOINTS)
    cp = os.path.join(ctx.work, "grow.cfg")
    open(cp, "w").write('SPECIFICATION Spec\nCONSTANTS\n Mode = "grow"\nINVARIANTS PointsInv\nCHECK_DEADLOCK FALSE\n')
    pv.ensure_links()
    r = pv.run(["timeout", "600", "tlc", "-workers", "4", "-config", cp, "-metadir", os.path.join(ctx.work, "st_grow"), "-cleanup", "-noGenerateSpecTE", "MC_Cost.tla"], cwd=pv.MC, env=pv.tlc_env())
    ctx.stats["tlc_runs"].append(dict(tag="MC_Cost grow", expected="PointsInv violated (nothing enforces max_points_in_program)", violated="Invariant PointsInv is violated" in r.stdout))
    if "Invariant PointsInv is violated" not in r.stdout:
        raise pv.ToolError("MC_Cost grow: expected counterexample not produced:\n" + r.stdout[-1500:])
    # (B) supervised, unguarded replay: 1 GiB address space, 6 s per case
    cs = []
    sel = cases if not q else [c for i, c in enumerate(cases) if c["predict"] == "unbounded" or i % 4 == 0
                               or (c["pre"]["exec"] and str(c["pre"]["exec"][0].get("v", "")).startswith("LIST.NEIGHBOR"))]
    for i, c in enumerate(sel):
        pre = c["pre"]
        if pre.get("bind") == []:
            pre["bind"] = {}
        cs.append({"id": "cost-%05d" % i, "pre": pre, "acts": [{"a": "step"}], "predict": c["predict"]})
    run_events(ctx, "cost_replay", cs, mem_kb=1024 * 1024, timeout_case=6, env={"PV_UNGUARDED": "1"}, max_hangs=None)
    # random extreme operands for every instruction: predicted bounded unless the model says otherwise is
    # decided by TLC only for the enumerated cases; here every instruction gets extreme integers and must
    # not abort or hang (panics are C01's business)
    g = gen.Gen(ctx.seed + 131, ctx.registry)
    cs = []
    listed = set(f[len("F-ALLOC-"):] for f in stages.load_findings() if f.startswith("F-ALLOC-"))
    for name in ctx.registry:
        if name in listed or name == "EXEC.CMD":
            continue
        EXT = [2147483647, -2147483648, 2147483646, 100000, -1]
        for i in range(5 if q else 30):
            s = g.state(depth=3)
            # the top operand runs through every extreme, the ones below are drawn
            s["int"] = [EXT[i % 5]] + [g.r.choice(EXT) for _ in range(3)] + s["int"]
            if i >= 5 and i % 2:
                s["int"][0], s["int"][1] = s["int"][1], EXT[i % 5]
            s["float"] = [g.r.choice(gen.F_POOL) for _ in range(3)] + s["float"]
            s["exec"] = [ins(name), ins("NOOP")]
            cs.append({"id": "extreme-%s-%d" % (name, i), "pre": s, "acts": [{"a": "step"}], "predict": "bounded"})
    run_events(ctx, "extreme_operands", cs, mem_kb=1024 * 1024, timeout_case=6, env={"PV_UNGUARDED": "1"}, max_hangs=40)
    # operand combinations and histories that are harmless one by one: code operands that contain each other,
    # and name bindings that refer to each other (a single step must stay bounded by the state size)
    I = lambda v: {"k": "int", "v": v}
    trees = [I(1), lst([I(1), I(3)]), lst([I(1), I(2), lst([I(1)])]), lst([lst([I(1), I(3)]), lst([I(1), I(3)])]), lst([])]
    cs = []
    for name in [n for n in ctx.registry if n.startswith("CODE.") or n.startswith("EXEC.")]:
        if name == "EXEC.CMD":
            continue
        k = 0
        for a in trees:
            for b in trees:
                for c in (trees if not q else trees[:3]):
                    s = gen.empty_state()
                    s["code"] = [a, b, c]
                    s["int"] = [2, 1]; s["bool"] = [True]; s["name"] = ["a"]
                    s["exec"] = [ins(name), a, b, c] if name.startswith("EXEC.") else [ins(name)]
                    cs.append({"id": "combo-%s-%d" % (name, k), "pre": s, "acts": [{"a": "step"}], "predict": "bounded"}); k += 1
    # deeply nested small items (rendering, comparing and searching them stays linear in their size)
    def deep(d, leaf):
        t = leaf
        for _ in range(d):
            t = lst([t])
        return t
    for name in [n for n in ctx.registry if n.startswith("CODE.") or n.startswith("EXEC.")] + ["NAME.QUOTE", "INTEGER.DEFINE", "LIST.ADD", "LIST.IVAL", "LIST.GET"]:
        if name == "EXEC.CMD":
            continue
        for d in ((30, 45) if q else (26, 30, 40, 50, 55)):      # (JSON nesting: two levels per list level, limit 128)
            a, b = deep(d, I(1)), deep(d, I(2))
            # searches that SUCCEED deep inside (both operand orders), next to those that fail
            for k2, code in enumerate(([a, I(1), a], [I(1), a, I(1)], [a, deep(3, I(1)), a])):
                s = gen.empty_state()
                s["code"] = code; s["int"] = [2, 1, 0]; s["bool"] = [True]; s["name"] = ["a"]
                s["exec"] = [ins(name), a, I(1), a] if name.startswith("EXEC.") else [ins(name)]
                cs.append({"id": "deepfound-%s-%d-%d" % (name, d, k2), "pre": s, "acts": [{"a": "step"}], "predict": "bounded"})
            s = gen.empty_state()
            s["code"] = [a, b, a]
            s["int"] = [2, 1, 0]; s["bool"] = [True]; s["name"] = ["a"]; s["ivec"] = [[3, 3]]
            s["exec"] = [ins(name), a, b, a] if name.startswith("EXEC.") else [ins(name)]
            cs.append({"id": "deep-%s-%d" % (name, d), "pre": s, "acts": [{"a": "step"}], "predict": "bounded"})
    idn = lambda v: {"k": "id", "v": v}
    for k, bind in enumerate([{"a": idn("b"), "b": idn("a")}, {"a": idn("a")}, {"a": idn("b"), "b": idn("c"), "c": idn("a")},
                              {"a": idn("b"), "b": idn("c"), "c": I(1)}, {"a": lst([idn("a")])}, {"a": idn("b"), "b": lst([idn("a"), idn("b")])}]):
        for top in sorted(bind):
            s = gen.empty_state()
            s["bind"] = bind
            s["exec"] = [idn(top), ins("NOOP")]
            cs.append({"id": "alias-%d-%s" % (k, top), "pre": s, "acts": [{"a": "step"}], "predict": "bounded"})
            s2 = json.loads(json.dumps(s)); s2["name"] = [top]
            for iname in ("NAME.QUOTE", "CODE.DEFINITION", "EXEC.DEFINE", "NAME.RANDBOUNDNAME"):
                s3 = json.loads(json.dumps(s2)); s3["exec"] = [ins(iname), idn(top)]
                cs.append({"id": "alias-%d-%s-%s" % (k, top, iname), "pre": s3, "acts": [{"a": "step"}], "predict": "bounded"})
    # alias chains that lead INTO a cycle the evaluated name is not part of, built by the program itself and then run
    # step by step (every single step stays bounded)
    for k, (chain, top) in enumerate([([("w", "x"), ("x", "y"), ("y", "x")], "w"), ([("w", "x"), ("x", "x")], "w"),
                                      ([("v", "w"), ("w", "x"), ("x", "y"), ("y", "z"), ("z", "x")], "v"), ([("w", "x"), ("x", "y"), ("y", "w")], "w")]):
        s = gen.empty_state()
        s["bind"] = {a: idn(b) for a, b in chain}
        s["exec"] = [idn(top), ins("NOOP")]
        cs.append({"id": "aliasinto-%d" % k, "pre": s, "acts": [{"a": "steps", "k": 30}], "predict": "bounded"})
        s2 = gen.empty_state()
        prog = []
        for a, b in chain:
            prog += [idn(a), ins("EXEC.DEFINE"), idn(b)]
        s2["exec"] = prog + [idn(top)]
        cs.append({"id": "aliasinto-prog-%d" % k, "pre": s2, "acts": [{"a": "steps", "k": 60}], "predict": "bounded"})
    # EXEC.CMD starts its command and goes on: a command that keeps running (or keeps writing) must not hold the step
    # (a step blocked on a sleeping child burns no CPU time: it is cut by the supervisor's no-progress rule, ten times
    # timeout_case of wall-clock time; the started commands end by themselves after 75 s)
    for k, names in enumerate((["75", "sleep"], ["sleep 75; true", "-c", "sh"])):
        s = gen.empty_state()
        s["name"] = names; s["int"] = [len(names) - 1]
        s["exec"] = [ins("EXEC.CMD"), I(1)]
        cs.append({"id": "execcmd-running-%d" % k, "pre": s, "acts": [{"a": "steps", "k": 2}], "predict": "bounded"})
    run_events(ctx, "combinations", cs, mem_kb=1024 * 1024, timeout_case=6, env={"PV_UNGUARDED": "1"}, max_hangs=40)
    # (C) doubling programs under the default limits
    cs = []
    for i, body in enumerate([["CODE.DUP", "CODE.LIST"], ["CODE.DUP", "CODE.CONS"], ["CODE.DUP", "CODE.APPEND"], ["EXEC.DUP"], ["NAME.DUP", "NAME.CAT"]]):
        s = gen.empty_state()
        s["name"] = ["a"]
        s["exec"] = [lst([ins("CODE.QUOTE"), lst([{"k": "int", "v": 1}]), ins("EXEC.Y"), lst([ins(b) for b in body])])]
        cs.append({"id": "grow-%d" % i, "pre": s, "acts": [{"a": "grow", "k": 1000, "cap": 5000}]})
    run_events(ctx, "doubling", cs, mem_kb=2 * 1024 * 1024, timeout_case=20)


def all_instr_groups(ctx, small=True):
    """every registered instruction with operand stacks of every depth (frame / crash sweeps)"""
    reg = ctx.registry
    groups = []
    many = set(LISTREC + NEIGH + ["GRAPH.NODE*STATESWITCH"])
    int3 = {"INTVECTOR.RAND", "GRAPH.EDGE*HISTORY", "GRAPH.NODE*HISTORY", "GRAPH.EDGE*ADD", "GRAPH.EDGE*SETWEIGHT", "GRAPH.EDGE*GETWEIGHT",
            "INTVECTOR.SET", "LIST.BVAL", "LIST.IVAL", "LIST.FVAL", "INTEGER.ROT", "INTEGER.YANK", "INTEGER.SHOVE", "INTEGER.YANKDUP", "INTVECTOR.FROMINT",
            "GRAPH.NODE*SETSTATE", "FLOATVECTOR.SINE", "INTEGER.DDUP"}
    rest = [n for n in reg if n not in many and (not small or n not in int3)]
    groups.append(("all", rest, dict(IntVals=[-1, 0, 2] if small else [-2147483648, -1, 0, 2, 2147483647], FloatVals=[F["one"], F["zero"]] if small else [F["one"], F["zero"], F["nan"]], NameVals=["a"],
                                     CodePool="one" if small else "abc", VecPool="small", DInt=2 if small else 3, DFloat=2 if small else 3, DBool=2, DName=2, DCode=3 if small else 2, DExec=3 if small else 2, DVec=2, Interp=True)))
    if small:
        groups.append(("int3", sorted(int3), dict(IntVals=[0, 2], FloatVals=[F["one"], F["zero"]], NameVals=["a"], CodePool="one", VecPool="small",
                                                 DInt=3, DFloat=3, DBool=1, DName=1, DCode=2, DExec=1, DVec=1)))
    groups.append(("many", LISTREC + ["GRAPH.NODE*STATESWITCH"], dict(IntVals=[1], FloatVals=[F["one"]], NameVals=["a"], CodePool="one", VecPool="ids", DInt=2, DFloat=1, DBool=1, DName=1, DCode=1, DExec=1, DVec=1)))
    groups.append(("neigh", NEIGH, dict(IntVals=[1, 64, 70], FloatVals=[F["one"]], CodePool="one", DInt=4, DFloat=1, DCode=1)))
    return groups


def run_c10(ctx):
    q = ctx.tier == "quick"
    for tag, instrs, pools in all_instr_groups(ctx, small=q):
        mc_stage(ctx, tag, instrs, pools)
    run_events(ctx, "rand_programs", random_program_cases(ctx, 60 if q else 4000, ctx.seed))
    run_events(ctx, "rand_instr", random_instr_cases(ctx, ctx.registry, 4 if q else 150, ctx.seed + 2))
    # guards that fail because of HOW the state came about (equal snapshots built in different orders), and instructions
    # inside the structures other instructions leave behind (FLUSH / POP inside a running loop)
    cs = []
    fb = gen.f2b
    for k, (n, sp) in enumerate([(1, 1.4), (0, 1.5), (2, 1.2), (1, -0.5), (0, -0.1), (3, float("nan")), (1, 1.0000001), (2, 2.0), (0, 1.0), (1, 0.0), (-1, 0.5), (-1, 1.5)]):
        for name, ints, floats in (("BOOLVECTOR.RAND", [n, 9], [fb(sp), fb(7.0)]), ("FLOATVECTOR.RAND", [n, 9], [fb(-abs(sp)) if sp == sp else fb(sp), fb(0.0), fb(7.0)]),
                                   ("INTVECTOR.RAND", [n, 5, 5, 9], [fb(7.0)]), ("INTVECTOR.RAND", [n, 7, 3, 9], [fb(7.0)])):
            s = gen.empty_state()
            s["int"] = ints; s["float"] = floats; s["bvec"] = [[True]]; s["ivec"] = [[1]]; s["fvec"] = [[fb(1.0)]]
            s["exec"] = [ins(name)]
            cs.append({"id": "randguard-%02d-%s-%d" % (k, name, len(ints)), "pre": s, "acts": [{"a": "step"}]})
    run_events(ctx, "histories", same_graph_cases() + flush_in_loop_cases(ctx) + cs)


def flush_in_loop_cases(ctx):
    """X.FLUSH / X.POP / X.DUP executed from inside a running EXEC.LOOP / CODE.LOOP / INTVECTOR.LOOP body: they touch their own
    stack only (the loop's continuation on EXEC and its counter on INDEX are items like any other)"""
    cs = []
    I = lambda v: {"k": "int", "v": v}
    names = [n for n in ctx.registry if n.split(".")[-1] in ("FLUSH", "POP", "DUP", "SWAP", "ROT", "STACKDEPTH") and not n.startswith("INDEX.")]
    for k, name in enumerate(names):
        for loop in ("EXEC.LOOP",) if k % 3 else ("EXEC.LOOP", "EXEC.DO*COUNT" if "EXEC.DO*COUNT" in ctx.registry else "EXEC.LOOP"):
            s = gen.empty_state()
            s["int"] = [3, 7, 8]; s["bool"] = [True, False]; s["float"] = [gen.f2b(1.5), gen.f2b(2.0)]; s["name"] = ["a", "b"]
            s["code"] = [I(1), lst([I(2)])]; s["bvec"] = [[True], [False]]; s["ivec"] = [[1], [2]]; s["fvec"] = [[gen.f2b(1.0)], [gen.f2b(2.0)]]
            s["index"] = [{"cur": 0, "dst": 5}]
            s["quote"] = k % 2 == 0; s["send"] = k % 3 == 0
            s["exec"] = [I(5), ins("INDEX.DEFINE"), I(3), ins("INDEX.DEFINE"), ins(loop), lst([I(7), ins(name), I(8)]), I(9)]
            cs.append({"id": "inloop-%s-%s" % (name, loop), "pre": s, "acts": [{"a": "steps", "k": 14}]})
    return cs


def run_c01(ctx):
    q = ctx.tier == "quick"
    for tag, instrs, pools in all_instr_groups(ctx, small=q):
        mc_stage(ctx, tag, instrs, pools)
    run_events(ctx, "rand_programs", random_program_cases(ctx, 150 if q else 10000, ctx.seed))
    run_events(ctx, "rand_instr", random_instr_cases(ctx, ctx.registry, 6 if q else 300, ctx.seed + 2))
    if ctx.extra:
        # instructions the build registers beyond the specification's: "any program over all registered instructions"
        # includes them; what their steps do is not judged, a crash is
        run_events(ctx, "unspecified_instr", random_instr_cases(ctx, ctx.extra, 40 if q else 1000, ctx.seed + 6, prefix="xi") +
                   random_program_cases(ctx, 60 if q else 3000, ctx.seed + 7, registry=ctx.registry + ctx.extra * 8, prefix="xprog"))
    # the code generator inside the interpreter under configuration values of every kind (probabilities outside [0, 1], NaN,
    # empty RAND intervals): generated programs are produced, pushed and executed without a crash
    cs = []
    gq = gen.Gen(ctx.seed + 8, ctx.registry, small_ints=True)
    for i, p in enumerate([0, gen.f2b(0.5), gen.f2b(1.0), gen.f2b(1.5), gen.f2b(-0.25), 2143289344, gen.f2b(float("inf")), gen.f2b(-1e30)] * (2 if q else 40)):
        s = gq.state(depth=2)
        s["cfg"]["new_name_p"] = p
        if i % 3 == 0:
            s["cfg"].update(min_i=5, max_i=5, min_f=gen.f2b(2.0), max_f=gen.f2b(-2.0))
        s["int"] = [gq.r.choice([2, 5, 12, 25, -7])] + s["int"]
        s["exec"] = [ins("CODE.RAND"), ins("CODE.DUP"), ins("CODE.DO"), ins("CODE.RAND")]
        cs.append({"id": "coderand-%04d" % i, "pre": s, "acts": [{"a": "steps", "k": 40}]})
    run_events(ctx, "code_generator_configurations", cs)
    # family-specific sequences (multi-step histories the uniform generator rarely produces)
    seqs = io_sequence_cases(ctx, 60 if q else 3000) + graph_sequence_cases(ctx, 30 if q else 2000) + \
        loop_program_cases(ctx, 20 if q else 1000) + list_roundtrip_cases(ctx, 40 if q else 2000) + vector_sequence_cases(ctx, 30 if q else 1500)
    run_events(ctx, "family_sequences", seqs)
    # EXEC.CMD on commands the operating system cannot start (unknown name, NUL byte, empty arguments): the
    # instruction sleeps one second per call, hence a handful of cases
    cs = []
    for k, (names, n) in enumerate([(["no-such-command-pv"], 0), (["arg", "no-such-command-pv"], 1), (["a\u0000b"], 0), (["x", "y", "no-such-command-pv", "below"], 2),
                                     (["no-such-command-pv"], 1), (["\u00e9\u00e9"], 0)]):
        s = gen.empty_state()
        s["name"] = names; s["int"] = [n, 5]
        s["exec"] = [ins("EXEC.CMD"), {"k": "int", "v": 1}]
        cs.append({"id": "execcmd-%d" % k, "pre": s, "acts": [{"a": "steps", "k": 2}]})
    run_events(ctx, "exec_cmd_not_startable", cs, env={"PV_CMD_NOTFOUND": "1"})
    # ... and on harmless commands that do start, whatever they print (bytes that are no UTF-8, nothing, much)
    cs = []
    for k, names in enumerate([["\\377\\376", "printf"], ["hi", "echo"], ["%s\\n", "printf"]] if q else
                              [["\\377\\376", "printf"], ["hi", "echo"], ["%s\\n", "printf"], ["\u00e9", "-n", "echo"], ["%0100000d", "printf"], ["\\200", "printf"]]):
        s = gen.empty_state()
        s["name"] = names + ["below"]; s["int"] = [len(names) - 1, 5]
        s["exec"] = [ins("EXEC.CMD"), {"k": "int", "v": 1}]
        cs.append({"id": "execcmd-harmless-%d" % k, "pre": s, "acts": [{"a": "steps", "k": 2}]})
    run_events(ctx, "exec_cmd_harmless", cs)
    # sizes: long vectors (sort / block thresholds) and long multi-byte names (byte-length thresholds)
    run_events(ctx, "long_vectors", long_vector_cases(ctx, 2 if q else 40, ctx.seed + 31))
    run_events(ctx, "multibyte_names", long_name_cases(ctx, q))
    if not q:
        pv.build_harness("release")
        run_events(ctx, "rand_programs_release", random_program_cases(ctx, 3000, ctx.seed + 9), profile="release")
        run_events(ctx, "rand_instr_release", random_instr_cases(ctx, ctx.registry, 100, ctx.seed + 4), profile="release")


def run_ext(ctx):
    """Extended coverage: behaviour the specification describes beyond the twenty listed properties.
    A deviation is reported under the pseudo-property EXT (this plan is not registered in MANIFEST.json)."""
    q = ctx.tier == "quick"
    g0 = gen.Gen(ctx.seed + 301, ctx.registry)
    class Dyadic(gen.Gen):          # floats whose decimal rendering the specification gives exactly
        def float(self):
            r = self.r
            return r.choice([gen.f2b(r.randint(-4000, 4000) / r.choice([1, 2, 4, 8, 16, 32, 64, 1024])), gen.f2b(float("inf")), gen.f2b(float("-inf")),
                             2143289344, 0, -2147483648, gen.f2b(0.25), gen.f2b(-0.75), gen.f2b(2.5e-4 * 0 + 0.0625)])
    g1 = Dyadic(ctx.seed + 302, ctx.registry)
    cs = []
    # Display of the whole state
    for i in range(300 if q else 20000):
        g = g0 if i % 4 == 0 else g1
        s = g.state(depth=3, with_graph=(i % 3 == 0))
        s["exec"] = [g.item(g.r.randint(1, 6)) for _ in range(g.r.randint(0, 3))]
        if i % 5 == 0:
            s["name"] = [g.r.choice(["a", " lead", "trail ", "\nNODES(0): \nEDGES(0): ", "x y", "\u00e9", ""]) for _ in range(g.r.randint(1, 3))]
        if i % 7 == 0:
            s["bind"] = {k: g.item(g.r.randint(1, 3)) for k in g.r.sample(["a", "B", "ab", "a.b", "a-b", "Z", "_x", "b", "aa", "A1", "a1", "~", "0"], g.r.randint(0, 6))}
        cs.append({"id": "statetext-%05d" % i, "pre": s, "acts": [{"a": "state_text"}, {"a": "steps", "k": 2}, {"a": "state_text"}]})
    # the instruction set as an object (MC_ISet: all histories up to a bound, replayed)
    cfg = 'SPECIFICATION Spec\nCONSTANTS\n MaxOps = %d\nINVARIANTS L2 L3 L4 Emit\nPROPERTY L1\nVIEW view\nCHECK_DEADLOCK FALSE\n' % (3 if q else 5)
    api_model(ctx, "MC_ISet", "mc_iset", cfg, lambda c: {"api": "iset", "ops": c["ops"]}, workers=8)
    cs.append({"id": "fresh-state", "fresh": True, "pre": gen.empty_state(), "acts": [{"a": "state_text", "fresh": True}]})
    run_events(ctx, "state_text", cs)


PLANS = {
    "EXT": dict(run=run_ext),
    "C01": dict(run=run_c01, judge=dict(owns_crash=True), rule="a case = (program, initial state); non-trivial = the recorded step reached an instruction or unpacked a list"),
    "C02": dict(run=run_c02),
    # (stage deep_texts: "the same nesting" of a balanced text of any depth is the parser's part of the round trip)
    "C03": dict(run=run_c03, judge=dict(extra_owner=lambda j, stage: stage == "deep_texts" and j.get("subj") == "roundtrip")),
    "C04": dict(run=run_c04),
    "C11": dict(run=run_c11),
    "C12": dict(run=run_c12, judge=dict(owns_crash=True)),
    "C13": dict(run=run_c13),
    "C05": dict(run=run_c05),
    # (the outcome of a whole run is C02's subject; in these stages it is the loop state / the pending quote that is compared)
    "C06": dict(run=run_c06, judge=dict(extra_owner=lambda j, stage: stage == "cut_loops" and j.get("subj") == "run")),
    # (a name misread by the parser never becomes a name: in stage name_texts that is C07's "for all names n")
    # (... and whatever touches the NAME.QUOTE flag in C07's own stages: "exactly the next encountered name ... and is then cleared")
    "C07": dict(run=run_c07, judge=dict(extra_owner=lambda j, stage: (stage == "pending_quote" and j.get("subj") == "run") or (stage == "name_texts" and j.get("subj") == "parse") or "quote" in j.get("fields", []))),
    "C08": dict(run=run_c08),
    "C09": dict(run=run_c09),
    "C10": dict(run=run_c10, judge=dict(frame=True)),
    "C14": dict(run=run_c14),
    "C15": dict(run=run_c15),
    "C16": dict(run=run_c16),
    "C17": dict(run=run_c17, judge=dict(extra_owner=lambda j, stage: stage == "io_runs" and j.get("subj") == "run" and bool(set(j.get("fields", [])) & {"input", "output"}))),
    "C18": dict(run=run_c18),
    # ("LIST.GET followed by execution puts the record's literal items back": the execution steps of that stage are claimed)
    "C19": dict(run=run_c19, judge=dict(extra_owner=lambda j, stage: stage in ("list_roundtrip", "list_runs") and (str(j.get("subj", "")).startswith("step:") or j.get("subj") == "run"))),
    "C20": dict(run=run_c20),
}


# ---------------------------------------------------------------------------------------------
# finishing: replay files, output lines, evidence

def write_replay(ctx, stage, v, kind, k):
    os.makedirs(os.path.join(pv.OUT, "replay"), exist_ok=True)
    e = pv.event_at(ctx.paths[stage], v["chunk"], v["l"])
    path = os.path.join(pv.OUT, "replay", "%s-%03d.json" % (ctx.pid, k))
    # the complete case the event belongs to (so that API histories and chains can be re-executed)
    case, cid = None, e.get("id")
    cp = os.path.join(ctx.work, stage + ".cases.ndjson")
    if os.path.exists(cp):
        for line in open(cp):
            if '"%s"' % cid in line:
                c = json.loads(line)
                if c.get("id") == cid:
                    case = c
                    break
    rep = {"property": ctx.pid, "kind": kind, "stage": stage, "verdict": v["j"], "event_index": e.get("i"),
           "spec": "TraceApi" if (case or {}).get("api") or e.get("act", {}).get("a") in ("det", "ids", "cli") else "Trace",
           "case": case, "rerun_stage": None if case else stage,
           "event": {k2: e[k2] for k2 in e if k2 not in ("post",)} if not case else None,
           "observed": e.get("post"), "ret": e.get("ret"), "seed": ctx.seed, "tier": ctx.tier,
           "repo_head": pv.run(["git", "-C", pv.REPO, "rev-parse", "HEAD"]).stdout.strip()}
    json.dump(rep, open(path, "w"), indent=1)
    return path


def finish(ctx, plan, viol, known, wall):
    findings = stages.load_findings()
    for fid, n in known.items():
        print("KNOWN-FINDING: property=%s %s %s (%d events)" % (ctx.pid, fid, findings[fid]["what"], n))
    seen, k = set(), 0
    for stage, v, kind in viol:
        key = (v["j"].get("subj"), kind, tuple(v["j"].get("fields", [])), tuple(v["j"].get("frame", [])))
        if key in seen and k >= 5:
            continue
        seen.add(key)
        if k < 25:
            path = write_replay(ctx, stage, v, kind, k)
            print("VIOLATION property=%s replay=%s" % (ctx.pid, path))
            print("  %s %s subject=%s fields=%s frame=%s %s" % (stage, kind, v["j"].get("subj"), v["j"].get("fields"), v["j"].get("frame"), v["j"].get("msg", "")[:200]))
        k += 1
    st = ctx.stats
    for note, n in sorted(st.get("ext_notes", {}).items()):
        print("NOTE (extended coverage, not part of %s): %s (%d events)" % (ctx.pid, note, n))
    ev = {"property_id": ctx.pid, "tier": ctx.tier, "seed": ctx.seed, "level": "model_checking",
          "coverage": {"states": st["states"], "transitions": st["transitions"],
                       "traces_validated_against_impl": st["events"],
                       "samples": ctx.samples or [{"note": "no events"}],
                       "replay_cases": st["cases_replayed"], "events_validated": st["events"],
                       "foreign_mismatches": st["foreign_mismatches"], "extended_coverage_notes": st.get("ext_notes", {}), "left_envelope": st["envelope"],
                       "known_findings_hit": dict(known), "tlc_runs": st["tlc_runs"], "stages": st["stages"],
                       "exhaustive": False,
                       "explanation": "states/transitions: TLC on the bounded one-step models; every explored case replayed on the real code and every recorded event validated by TLC against the specification"},
          "assumptions": ["TLC 1.8.0 evaluates the specification correctly", "project/build of the harness are faithful (checked: project(build(pre)) is compared with pre by the trace specification)",
                          "hooks: node-id counter accessors under cfg(pushr_verif)"],
          "wall_s": round(wall, 1), "violations": len(viol)}
    if plan.get("rule"):
        ev["coverage"]["rule"] = plan["rule"]
    if ctx.pid == "EXT":      # extended coverage is not a listed property: its record is kept apart from evidence/
        json.dump(ev, open(os.path.join(pv.OUT if pv.ALT else os.path.join(pv.VERIF, "docs"), "ext-coverage.json"), "w"), indent=1)
    else:
        os.makedirs(pv.EVIDENCE_DIR, exist_ok=True)
        json.dump(ev, open(os.path.join(pv.EVIDENCE_DIR, ctx.pid + ".json"), "w"), indent=1)
    print("%s %s: %d TLC states, %d events validated, %d violations, %d known-finding kinds, %.0fs" % (ctx.pid, ctx.tier, st["states"], st["events"], len(viol), len(known), wall))
    return 1 if viol else 0


def replay(ctx, path):
    rep = json.load(open(path))
    plan = PLANS[ctx.pid]
    if rep.get("case"):
        n = run_events(ctx, "replay", [rep["case"]], spec=rep.get("spec", "Trace"),
                       **({"env": {"PV_UNGUARDED": "1"}, "mem_kb": 1024 * 1024, "timeout_case": 6} if rep.get("stage") in ("cost_replay", "extreme_operands") else {}))
    else:
        # events produced by the thread / CLI drivers: the whole plan is re-run (seed and tier of the file)
        ctx.seed, ctx.tier = rep.get("seed", ctx.seed), "quick"
        plan["run"](ctx)
        n = ctx.stats["events"]
    viol, known = stages.judge(ctx, **plan.get("judge", {}))
    for stage, v in ctx.verdicts:
        print("verdict:", json.dumps(v["j"])[:600])
    if not ctx.verdicts:
        print("replay: every event accepted by the specification (%d events)" % n)
    for stage, v, kind in viol[:1]:
        print("VIOLATION property=%s replay=%s" % (ctx.pid, path))
    return 1 if viol else 0
