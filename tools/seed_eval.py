#!/usr/bin/env python3
"""seed_eval.py SEED_DIR [--props C04,C10] [--tier quick] [--skip-confirm]
Confirms a seeded change (patch.diff + demo.rs + meta.json) in a scratch worktree of /repo and runs the
checks against that worktree (PV_REPO), without touching /repo. Prints a JSON summary."""
import sys, os, json, subprocess, shutil, re, time, hashlib

def sh(cmd, **kw):
    return subprocess.run(cmd, shell=True, stdout=subprocess.PIPE, stderr=subprocess.STDOUT, text=True, errors="replace", **kw)

ROOT = os.path.dirname(os.path.dirname(os.path.abspath(__file__)))     # the /verif this script belongs to (or a snapshot of it)


def main():
    seed = os.path.abspath(sys.argv[1])
    args = sys.argv[2:]
    tier = args[args.index("--tier") + 1] if "--tier" in args else "quick"
    meta = json.load(open(os.path.join(seed, "meta.json")))
    props = args[args.index("--props") + 1].split(",") if "--props" in args else [meta["property"]]
    name = os.path.basename(seed.rstrip("/"))
    wt = "/tmp/wt/ev-%s-%s" % (name, hashlib.sha1(ROOT.encode()).hexdigest()[:6])
    sh("git -C /repo worktree remove --force %s" % wt)
    shutil.rmtree(wt, ignore_errors=True)
    r = sh("git -C /repo worktree add -q --detach %s HEAD" % wt)
    out = {"seed": name, "property": meta["property"]}
    try:
        if "--skip-confirm" not in args:
            os.makedirs(wt + "/tests", exist_ok=True)
            shutil.copy(os.path.join(seed, "demo.rs"), wt + "/tests/demo.rs")
            r0 = sh("cd %s && cargo test --offline --test demo 2>&1 | tail -n 5" % wt)
            out["demo_passes_without"] = "test result: ok" in r0.stdout
            os.remove(wt + "/tests/demo.rs")
        a = sh("git -C %s apply %s" % (wt, os.path.join(seed, "patch.diff")))
        if a.returncode != 0:
            out["error"] = "patch does not apply: " + a.stdout[-300:]
            print(json.dumps(out)); return
        if "--skip-confirm" not in args:
            r1 = sh("cd %s && cargo test --offline 2>&1 | grep 'test result' | head -n 1" % wt)
            out["unit_tests"] = r1.stdout.strip()
            out["unit_tests_pass"] = "291 passed; 0 failed" in r1.stdout
            shutil.copy(os.path.join(seed, "demo.rs"), wt + "/tests/demo.rs")
            r2 = sh("cd %s && cargo test --offline --test demo 2>&1 | tail -n 5" % wt)
            out["demo_fails_with_change"] = "test result: FAILED" in r2.stdout or "panicked" in r2.stdout
            os.remove(wt + "/tests/demo.rs")
        out["checks"] = {}
        for p in props:
            t0 = time.time()
            c = sh("cd %s && PV_REPO=%s ./check %s %s" % (ROOT, wt, p, tier))
            v = [l for l in c.stdout.splitlines() if l.startswith("VIOLATION")]
            detail = [l.strip() for l in c.stdout.splitlines() if l.startswith("  ")][:3]
            out["checks"][p] = {"exit": c.returncode, "violations": len(v), "detail": detail, "s": round(time.time() - t0)}
            if c.returncode == 2:
                out["checks"][p]["tool_error"] = c.stdout[-500:]
    finally:
        sh("git -C /repo worktree remove --force %s" % wt)
        shutil.rmtree(wt, ignore_errors=True)
        shutil.rmtree(os.path.join(ROOT, "harness/target", "alt-" + __import__("hashlib").sha1(wt.encode()).hexdigest()[:10]), ignore_errors=True)
        shutil.rmtree(os.path.join(ROOT, "out", "alt-" + __import__("hashlib").sha1(wt.encode()).hexdigest()[:10]), ignore_errors=True)
    print(json.dumps(out, indent=1))

main()
