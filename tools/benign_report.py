#!/usr/bin/env python3
"""Rewrites the table of property-preserving changes in DESIGN.md (between the BENIGN markers) from benign/*/meta.json."""
import json, glob, os, re
HERE = os.path.dirname(os.path.abspath(__file__))
rows = []
for d in sorted(glob.glob(os.path.join(HERE, "..", "benign", "*", "meta.json"))):
    m = json.load(open(d)); n = os.path.basename(os.path.dirname(d))
    res = m.get("checks", {}).get("quick", {})
    rows.append("| %s | %s | %s | %s | %s |" % (n, m["property"], m["summary"].replace("|", "/")[:200], m.get("observable", "").replace("|", "/")[:160],
                                             (", ".join("%s: exit %s" % (p, e) for p, e in sorted(res.items())) or "—") + ((" — " + m["note"].replace("|", "/")) if m.get("note") else "")))
table = "| change | property | what was changed | what differs observably | quick check of the property |\n|---|---|---|---|---|\n" + "\n".join(rows)
p = os.path.join(HERE, "..", "DESIGN.md")
s = open(p).read()
blk = "<!-- BENIGN-BEGIN -->\n" + table + "\n<!-- BENIGN-END -->"
if "<!-- BENIGN-BEGIN -->" in s:
    s = re.sub(r"<!-- BENIGN-BEGIN -->.*?<!-- BENIGN-END -->", lambda _: blk, s, flags=re.S)
else:
    s = s.rstrip() + "\n\n" + blk + "\n"
open(p, "w").write(s)
print(len(rows), "benign changes")
