#!/bin/bash
# import_benign5.sh <PID>: copies /tmp/wt/B5<PID>.out/{patch,demo,meta}{1,2} into /verif/benign/<PID>-{9,10}/ (fifth round)
p=$1
for i in 1 2; do
  if [ -f /tmp/wt/B5$p.out/patch$i.diff ] && [ -f /tmp/wt/B5$p.out/meta$i.json ]; then
    d=/verif/benign/$p-$((i+8)); mkdir -p $d
    cp /tmp/wt/B5$p.out/patch$i.diff $d/patch.diff; cp /tmp/wt/B5$p.out/demo$i.rs $d/demo.rs; cp /tmp/wt/B5$p.out/meta$i.json $d/meta.json
    echo imported $d
  fi
done
