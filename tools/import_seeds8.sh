#!/bin/bash
# import_seeds8.sh <PID>: copies /tmp/wt/R8<PID>.out/{patch,demo,meta}{1,2} into /verif/seeded/<PID>-{o,p}/ (eighth round)
p=$1
for i in 1 2; do
  n=$( [ $i = 1 ] && echo o || echo p )
  if [ -f /tmp/wt/R8$p.out/patch$i.diff ]; then
    d=/verif/seeded/$p-$n; mkdir -p $d
    cp /tmp/wt/R8$p.out/patch$i.diff $d/patch.diff; cp /tmp/wt/R8$p.out/demo$i.rs $d/demo.rs; cp /tmp/wt/R8$p.out/meta$i.json $d/meta.json
    echo imported $d
  fi
done
