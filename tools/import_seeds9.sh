#!/bin/bash
# import_seeds9.sh <PID>: copies /tmp/wt/R9<PID>.out/{patch,demo,meta}{1,2} into /verif/seeded/<PID>-{q,r}/ (ninth round)
p=$1
for i in 1 2; do
  n=$( [ $i = 1 ] && echo q || echo r )
  if [ -f /tmp/wt/R9$p.out/patch$i.diff ] && [ -f /tmp/wt/R9$p.out/meta$i.json ] && [ -f /tmp/wt/R9$p.out/demo$i.rs ]; then
    d=/verif/seeded/$p-$n; mkdir -p $d
    cp /tmp/wt/R9$p.out/patch$i.diff $d/patch.diff; cp /tmp/wt/R9$p.out/demo$i.rs $d/demo.rs; cp /tmp/wt/R9$p.out/meta$i.json $d/meta.json
    echo imported $d
  fi
done
