#!/bin/bash
# import_seeds7.sh <PID>: copies /tmp/wt/R7<PID>.out/{patch,demo,meta}{1,2} into /verif/seeded/<PID>-{m,n}/ (seventh round)
p=$1
for i in 1 2; do
  n=$( [ $i = 1 ] && echo m || echo n )
  if [ -f /tmp/wt/R7$p.out/patch$i.diff ]; then
    d=/verif/seeded/$p-$n; mkdir -p $d
    cp /tmp/wt/R7$p.out/patch$i.diff $d/patch.diff; cp /tmp/wt/R7$p.out/demo$i.rs $d/demo.rs; cp /tmp/wt/R7$p.out/meta$i.json $d/meta.json
    echo imported $d
  fi
done
