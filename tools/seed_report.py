#!/usr/bin/env python3
"""Rewrites section 9 of DESIGN.md (between the SEEDS markers) from seeded/*/meta.json."""
import json, glob, os, re
HERE = os.path.dirname(os.path.abspath(__file__))
rows = []
for d in sorted(glob.glob(os.path.join(HERE, "..", "seeded", "*", "meta.json"))):
    m = json.load(open(d)); n = os.path.basename(os.path.dirname(d))
    det = m.get("detected_by", {})
    rows.append("| %s | %s | %s | %s | %s |" % (n, m["property"], m["summary"].replace("|", "/")[:190], m.get("needs", "").replace("|", "/")[:150],
                                             ", ".join(det.get("quick", [])) or "—"))
table = "| seed | property | change | needs | detected by (quick tier) |\n|---|---|---|---|---|\n" + "\n".join(rows)
p = os.path.join(HERE, "..", "DESIGN.md")
s = open(p).read()
blk = "<!-- SEEDS-BEGIN -->\n" + table + "\n<!-- SEEDS-END -->"
if "<!-- SEEDS-BEGIN -->" in s:
    s = re.sub(r"<!-- SEEDS-BEGIN -->.*?<!-- SEEDS-END -->", lambda _: blk, s, flags=re.S)
else:
    s = s.rstrip() + "\n\n" + blk + "\n"
open(p, "w").write(s)
print(len(rows), "seeds")
