#!/usr/bin/env python3
"""seed_table.py [--tier quick] [--only NAME,..] [--jobs 3]
Runs the check of the owning property (and of the properties named in meta.json "also") against every
seeded change in /verif/seeded (each in its own scratch worktree, /repo untouched) and records which
checks detect it in seeded/RESULTS.json and in each meta.json."""
import sys, os, json, subprocess, glob
from concurrent.futures import ThreadPoolExecutor
HERE = os.path.dirname(os.path.abspath(__file__))
SEEDED = os.path.join(HERE, "..", "seeded")

def main():
    a = sys.argv[1:]
    tier = a[a.index("--tier") + 1] if "--tier" in a else "quick"
    only = a[a.index("--only") + 1].split(",") if "--only" in a else None
    jobs = int(a[a.index("--jobs") + 1]) if "--jobs" in a else 3
    seeds = sorted(d for d in glob.glob(os.path.join(SEEDED, "*")) if os.path.isdir(d) and os.path.exists(os.path.join(d, "patch.diff")))
    if only:
        seeds = [s for s in seeds if os.path.basename(s) in only]
    def one(sd):
        meta = json.load(open(os.path.join(sd, "meta.json")))
        props = [meta["property"]] + [p for p in meta.get("also", []) if p != meta["property"]]
        confirm = [] if "confirmed" not in meta else ["--skip-confirm"]
        r = subprocess.run([os.path.join(HERE, "seed_eval.py"), sd, "--props", ",".join(props), "--tier", tier] + confirm,
                           stdout=subprocess.PIPE, stderr=subprocess.STDOUT, text=True)
        try:
            out = json.loads(r.stdout[r.stdout.index("{"):])
        except Exception:
            out = {"seed": os.path.basename(sd), "error": r.stdout[-500:]}
        if "unit_tests_pass" in out:
            meta["confirmed"] = {k: out.get(k) for k in ("demo_passes_without", "unit_tests_pass", "demo_fails_with_change", "unit_tests")}
        det = sorted(p for p, c in out.get("checks", {}).items() if c["exit"] == 1)
        meta.setdefault("detected_by", {})[tier] = det
        meta["ran"] = "tools/seed_eval.py (scratch worktree of /repo HEAD + patch; cargo test --offline; demo with and without the patch; PV_REPO=<worktree> ./check <ID> %s)" % tier
        json.dump(meta, open(os.path.join(sd, "meta.json"), "w"), indent=1)
        return out
    with ThreadPoolExecutor(max_workers=jobs) as ex:
        res = list(ex.map(one, seeds))
    path = os.path.join(SEEDED, "RESULTS.json")
    old = json.load(open(path)) if os.path.exists(path) else {}
    for r in res:
        old.setdefault(r["seed"], {})[tier] = {"checks": {p: {"exit": c["exit"], "violations": c["violations"], "detail": c["detail"][:1]} for p, c in r.get("checks", {}).items()},
                                                "error": r.get("error")}
    json.dump(old, open(path, "w"), indent=1)
    for r in res:
        print(r["seed"], {p: (c["exit"], c["violations"]) for p, c in r.get("checks", {}).items()}, r.get("error", "") or "")

main()
