#!/bin/bash
# import_seeds.sh <PID>: copies /tmp/wt/<PID>.out/{patch,demo,meta}{1,2} into /verif/seeded/<PID>-{a,b}/
p=$1
for i in 1 2; do
  n=$( [ $i = 1 ] && echo a || echo b )
  if [ -f /tmp/wt/$p.out/patch$i.diff ]; then
    d=/verif/seeded/$p-$n; mkdir -p $d
    cp /tmp/wt/$p.out/patch$i.diff $d/patch.diff; cp /tmp/wt/$p.out/demo$i.rs $d/demo.rs; cp /tmp/wt/$p.out/meta$i.json $d/meta.json
    echo imported $d
  fi
done
