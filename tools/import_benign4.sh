#!/bin/bash
# import_benign4.sh <PID>: copies /tmp/wt/B4<PID>.out/{patch,demo,meta}{1,2} into /verif/benign/<PID>-{7,8}/ (fourth round)
p=$1
for i in 1 2; do
  if [ -f /tmp/wt/B4$p.out/patch$i.diff ]; then
    d=/verif/benign/$p-$((i+6)); mkdir -p $d
    cp /tmp/wt/B4$p.out/patch$i.diff $d/patch.diff; cp /tmp/wt/B4$p.out/demo$i.rs $d/demo.rs; cp /tmp/wt/B4$p.out/meta$i.json $d/meta.json
    echo imported $d
  fi
done
