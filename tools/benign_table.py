#!/usr/bin/env python3
"""benign_table.py [--jobs 3] [--only a,b]: runs tools/benign_eval.py on every directory of benign/ and prints one line each."""
import sys, os, json, glob, subprocess
from concurrent.futures import ThreadPoolExecutor
HERE = os.path.dirname(os.path.abspath(__file__)); ROOT = os.path.dirname(HERE)
a = sys.argv[1:]
jobs = int(a[a.index("--jobs") + 1]) if "--jobs" in a else 3
only = a[a.index("--only") + 1].split(",") if "--only" in a else None
dirs = sorted(d for d in glob.glob(os.path.join(ROOT, "benign", "*")) if os.path.exists(os.path.join(d, "patch.diff")))
if only: dirs = [d for d in dirs if os.path.basename(d) in only]
def one(d):
    r = subprocess.run([os.path.join(HERE, "benign_eval.py"), d], stdout=subprocess.PIPE, stderr=subprocess.STDOUT, text=True)
    try: return json.loads(r.stdout[r.stdout.index("{"):])
    except Exception: return {"benign": os.path.basename(d), "error": r.stdout[-400:]}
with ThreadPoolExecutor(max_workers=jobs) as ex:
    res = list(ex.map(one, dirs))
json.dump(res, open(os.path.join(ROOT, "benign", "RESULTS.json"), "w"), indent=1)
for o in res:
    print(o["benign"], {k: o.get(k) for k in ("demo_passes_without", "unit_tests_pass", "demo_passes_with_change")},
          {p: (c["exit"], c["violations"], c.get("detail", [])[:2], c.get("notes", [])[:2]) for p, c in o.get("checks", {}).items()}, o.get("error", ""))
