#!/usr/bin/env python3
"""benign_eval.py BENIGN_DIR [--props C17,C16] [--tier quick]
A property-PRESERVING change (patch.diff + demo.rs + meta.json, written by an independent sub-agent): confirms
in a scratch worktree of /repo that the unit tests pass and that the demonstration passes with and without the
patch, then runs the checks against the patched worktree (PV_REPO). Every check must exit 0: an exit 1 is either
a false alarm of the machinery or a change that does break the property (to be decided by reading the replay)."""
import sys, os, json, subprocess, shutil, time, hashlib
ROOT = os.path.dirname(os.path.dirname(os.path.abspath(__file__)))

def sh(cmd, **kw):
    return subprocess.run(cmd, shell=True, stdout=subprocess.PIPE, stderr=subprocess.STDOUT, text=True, errors="replace", **kw)

def main():
    d = os.path.abspath(sys.argv[1]); args = sys.argv[2:]
    tier = args[args.index("--tier") + 1] if "--tier" in args else "quick"
    meta = json.load(open(os.path.join(d, "meta.json")))
    props = args[args.index("--props") + 1].split(",") if "--props" in args else [meta["property"]]
    name = os.path.basename(d.rstrip("/"))
    wt = "/tmp/wt/bn-%s-%s" % (name, hashlib.sha1(ROOT.encode()).hexdigest()[:6])
    sh("git -C /repo worktree remove --force %s" % wt); shutil.rmtree(wt, ignore_errors=True)
    sh("git -C /repo worktree add -q --detach %s HEAD" % wt)
    out = {"benign": name, "property": meta["property"]}
    try:
        os.makedirs(wt + "/tests", exist_ok=True)
        shutil.copy(os.path.join(d, "demo.rs"), wt + "/tests/demo.rs")
        r0 = sh("cd %s && cargo test --offline --test demo 2>&1 | tail -n 5" % wt)
        out["demo_passes_without"] = "test result: ok" in r0.stdout
        os.remove(wt + "/tests/demo.rs")
        a = sh("git -C %s apply %s" % (wt, os.path.join(d, "patch.diff")))
        if a.returncode != 0:
            out["error"] = "patch does not apply: " + a.stdout[-300:]; print(json.dumps(out)); return
        r1 = sh("cd %s && cargo test --offline 2>&1 | grep 'test result' | head -n 1" % wt)
        import re as _re; _m = _re.search(r"(\d+) passed; 0 failed", r1.stdout); out["unit_tests_pass"] = bool(_m and int(_m.group(1)) >= 291)
        shutil.copy(os.path.join(d, "demo.rs"), wt + "/tests/demo.rs")
        r2 = sh("cd %s && cargo test --offline --test demo 2>&1 | tail -n 5" % wt)
        out["demo_passes_with_change"] = "test result: ok" in r2.stdout
        os.remove(wt + "/tests/demo.rs"); os.rmdir(wt + "/tests")
        out["checks"] = {}
        for p in props:
            c = sh("cd %s && PV_REPO=%s ./check %s %s" % (ROOT, wt, p, tier))
            lines = c.stdout.splitlines()
            out["checks"][p] = {"exit": c.returncode, "violations": len([l for l in lines if l.startswith("VIOLATION")]),
                                "detail": [l.strip() for l in lines if l.startswith("  ")][:4], "notes": [l for l in lines if l.startswith("NOTE")][:4]}
            if c.returncode == 2:
                out["checks"][p]["tool_error"] = c.stdout[-600:]
    finally:
        sh("git -C /repo worktree remove --force %s" % wt); shutil.rmtree(wt, ignore_errors=True)
        h = hashlib.sha1(wt.encode()).hexdigest()[:10]
        shutil.rmtree(os.path.join(ROOT, "harness/target", "alt-" + h), ignore_errors=True)
        shutil.rmtree(os.path.join(ROOT, "out", "alt-" + h), ignore_errors=True)
    meta["evaluated"] = {k: out.get(k) for k in ("demo_passes_without", "unit_tests_pass", "demo_passes_with_change")}
    meta.setdefault("checks", {})[tier] = {p: c["exit"] for p, c in out.get("checks", {}).items()}
    json.dump(meta, open(os.path.join(d, "meta.json"), "w"), indent=1)
    print(json.dumps(out, indent=1))

main()
