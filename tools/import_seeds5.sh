#!/bin/bash
# import_seeds5.sh <PID>: copies /tmp/wt/R2<PID>.out/{patch,demo,meta}{1,2} into /verif/seeded/<PID>-{i,j}/
p=$1
for i in 1 2; do
  n=$( [ $i = 1 ] && echo i || echo j )
  if [ -f /tmp/wt/R5$p.out/patch$i.diff ]; then
    d=/verif/seeded/$p-$n; mkdir -p $d
    cp /tmp/wt/R5$p.out/patch$i.diff $d/patch.diff; cp /tmp/wt/R5$p.out/demo$i.rs $d/demo.rs; cp /tmp/wt/R5$p.out/meta$i.json $d/meta.json
    echo imported $d
  fi
done
