#!/usr/bin/env python3
"""Development tool: replay the bounded one-step model of a set of instructions against the real
code and summarise TLC's verdicts by instruction. usage: sweep.py [regex] [--profile release]"""
import sys, os, json, re, collections
sys.path.insert(0, os.path.join(os.path.dirname(os.path.abspath(__file__)), "..", "lib"))
import pv

def main():
    pat = sys.argv[1] if len(sys.argv) > 1 and not sys.argv[1].startswith("--") else "."
    profile = "release" if "--release" in sys.argv else "dev"
    pv.build_harness(profile)
    names = json.load(open(os.path.join(pv.OUT, "registry.json")))
    names = [n for n in names if re.search(pat, n)]
    base = pv.get_base()
    work = os.path.join(pv.OUT, "sweep")
    os.makedirs(work, exist_ok=True)
    F = dict(zero=0, nzero=-2147483648, one=1065353216, mone=-1082130432, nan=2143289344, inf=2139095040, ninf=-8388608,
             h=1056964608, x15=1069547520, m25=-1071644672, three=1077936128, tiny=981467136, big=1166016512, max=2139095039, tenth=1036831949)
    groups = collections.defaultdict(list)
    for n in names:
        if n.startswith("LIST.ADD") or n.startswith("LIST.SET"):
            groups["listrec"].append(n)
        elif n.startswith("LIST.NEIGHBOR"):
            groups["neighbor"].append(n)
        elif n.startswith("LIST."):
            groups["listval"].append(n)
        elif n.startswith("CODE."):
            groups["code"].append(n)
        elif "VECTOR" in n:
            groups["vector"].append(n)
        elif n.startswith("GRAPH."):
            groups["graph"].append(n)
        else:
            groups["scalar"].append(n)
    pools = dict(
        scalar=dict(IntVals=[-2147483648, -2147483647, -2, -1, 0, 1, 2, 3, 2147483646, 2147483647],
                    FloatVals=[F[k] for k in ("zero", "nzero", "one", "mone", "h", "x15", "m25", "three", "tiny", "big", "inf", "ninf", "nan", "tenth", "max")],
                    NameVals=["a", "b", "x y"], Interp=True),
        code=dict(CodePool="trees", IntVals=[-7, -1, 0, 1, 2, 3, 4, 5, 9], DCode=3, DExec=2, FloatVals=[F["one"], F["nan"]]),
        vector=dict(VecPool="wide", IntVals=[-2147483648, -5, -1, 0, 1, 2, 3, 2147483647], FloatVals=[F["zero"], F["one"], F["x15"], F["nan"]], DVec=2, DInt=2, DFloat=2),
        graph=dict(IntVals=[-1, 0, 1, 2, 3, 10, 2147483647], FloatVals=[F["h"], F["nan"]], VecPool="small", DInt=3, DFloat=1, DVec=1),
        listrec=dict(CodePool="one", VecPool="ids", IntVals=[5], FloatVals=[F["one"]], NameVals=["a"], DInt=2, DFloat=1, DBool=1, DName=1, DCode=1, DExec=1, DVec=1),
        listval=dict(CodePool="recs", IntVals=[-1, 0, 1, 2, 5], DInt=2, DCode=2),
        neighbor=dict(CodePool="recs", IntVals=[-1, 0, 1, 2, 3, 9, 27], FloatVals=[F["zero"], F["one"], F["x15"], F["three"], F["nan"], F["mone"], F["inf"]], DInt=4, DFloat=1, DCode=1),
    )
    allv, total = [], 0
    for g, ns in groups.items():
        cases, stats = pv.run_mc_step("sweep_" + g, ns, pools[g], work, workers=12)
        print("MC", g, {k: v for k, v in stats.items() if k != "error"})
        if "error" in stats:
            print(stats["error"])
            continue
        cs = pv.expand_cases(cases, base, g)
        cp = os.path.join(work, g + ".cases.ndjson")
        with open(cp, "w") as f:
            for c in cs:
                f.write(json.dumps(c) + "\n")
        ep = os.path.join(work, g + ".events.ndjson")
        ab = pv.exec_cases(cp, ep, profile)
        if ab:
            print("aborted:", ab[:5])
        vs, n, paths = pv.validate_events(ep, os.path.join(work, "val_" + g))
        total += n
        for v in vs:
            v["group"] = g
            v["paths"] = paths
        allv.extend(vs)
    by = collections.defaultdict(list)
    for v in allv:
        by[(v["j"]["subj"], v["j"]["v"])].append(v)
    print("events validated:", total, " non-ok:", len(allv))
    for (subj, verdict), vs in sorted(by.items()):
        v = vs[0]
        e = pv.event_at(v["paths"], v["chunk"], v["l"])
        pre = e["pre"]
        show = {k: pre[k] for k in ("exec", "code", "int", "float", "bool", "name", "bvec", "ivec", "fvec", "index") if k in v["j"].get("fields", []) or k in ("int",)}
        post = e["post"] if "crash" in e["post"] else {k: e["post"][k] for k in v["j"].get("fields", [])}
        print("%-26s %-9s n=%-5d fields=%s\n     pre=%s\n     post=%s %s" % (subj, verdict, len(vs), v["j"].get("fields"), json.dumps(show)[:400], json.dumps(post)[:300], v["j"].get("msg", "")))

main()
