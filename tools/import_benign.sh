#!/bin/bash
# import_benign.sh <PID>: copies /tmp/wt/B<PID>.out/{patch,demo,meta}{1,2} into /verif/benign/<PID>-{1,2}/
p=$1
for i in 1 2; do
  if [ -f /tmp/wt/B$p.out/patch$i.diff ]; then
    d=/verif/benign/$p-$i; mkdir -p $d
    cp /tmp/wt/B$p.out/patch$i.diff $d/patch.diff; cp /tmp/wt/B$p.out/demo$i.rs $d/demo.rs; cp /tmp/wt/B$p.out/meta$i.json $d/meta.json
    echo imported $d
  fi
done
