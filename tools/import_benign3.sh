#!/bin/bash
# import_benign3.sh <PID>: copies /tmp/wt/B3<PID>.out/{patch,demo,meta}{1,2} into /verif/benign/<PID>-{5,6}/ (third round)
p=$1
for i in 1 2; do
  if [ -f /tmp/wt/B3$p.out/patch$i.diff ]; then
    d=/verif/benign/$p-$((i+4)); mkdir -p $d
    cp /tmp/wt/B3$p.out/patch$i.diff $d/patch.diff; cp /tmp/wt/B3$p.out/demo$i.rs $d/demo.rs; cp /tmp/wt/B3$p.out/meta$i.json $d/meta.json
    echo imported $d
  fi
done
