//! Drivers for the container / item / graph / topology / generator APIs (filled in per property).

use serde_json::{json, Value};
use std::io::Write;

pub fn run_api_case(case: &Value, out: &mut dyn Write) {
    writeln!(out, "{}", json!({"id": case["id"], "i": 0, "act": case["api"], "post": {"crash": "harness", "msg": "api not implemented"}})).unwrap();
}
