//! Drivers for the container / item / graph / topology / generator APIs.
//! Case:  {"id":..,"api":"stack"|"buffer"|"graph"|"topo"|"item"|"gen", ...}
//! Every operation becomes one event {"id","i","act":{"a":<api>,"m":<method>,"args":[..]},"ret":RET,"post":STATE}
//! (the first event also carries "pre"). RET is a record {"t":"some"|"none"|"ok"|"err"|"unit"|"val","v":..}.

use crate::conv::*;
use crate::exec::panic_msg;
use pushr::push::buffer::PushBuffer;
use pushr::push::graph::Graph;
use pushr::push::instructions::{Instruction, InstructionCache, InstructionSet};
use pushr::push::interpreter::PushInterpreter;
use pushr::push::item::Item;
use pushr::push::random::CodeGenerator;
use pushr::push::stack::PushStack;
use pushr::push::state::PushState;
use pushr::push::topology::Topology;
use serde_json::{json, Value};
use std::io::Write;
use std::panic::{catch_unwind, AssertUnwindSafe};

fn some(v: Value) -> Value {
    json!({"t": "some", "v": v})
}
fn none() -> Value {
    json!({"t": "none", "v": 0})
}
fn unit() -> Value {
    json!({"t": "unit", "v": 0})
}
fn val(v: Value) -> Value {
    json!({"t": "val", "v": v})
}
fn opt<T, F: Fn(T) -> Value>(o: Option<T>, f: F) -> Value {
    match o {
        Some(x) => some(f(x)),
        None => none(),
    }
}
// a position / count; negative numbers encode huge values (-1 = usize::MAX, -2 = usize::MAX - 1, ...; -1000 - k = (k + 1) * 2^32):
// the trace specification cannot hold 64-bit numbers
fn us(v: &Value) -> usize {
    match v.as_i64() {
        Some(x) if x <= -1000 => ((-x - 999) as usize) << 32,     // -1000 = 2^32, -1001 = 2 * 2^32, ...
        Some(x) if x < 0 => usize::MAX - ((-x - 1) as usize),
        _ => v.as_u64().unwrap_or(0) as usize,
    }
}

// ------------------------------------------------------------------------------------------------
// PushStack<i32> and PushStack<Item>

trait Elem: Clone + std::fmt::Display + PartialEq + pushr::push::stack::PushPrint {
    fn from_j(v: &Value) -> Self;
    fn to_j(&self) -> Value;
    /// an element nested `n` levels deep around `leaf` (items only): ( n ( n-1 ( ... ( 1 leaf ) ... ) ) )
    fn deep(_n: usize, _leaf: i32) -> Option<Self> {
        None
    }
}
impl Elem for i32 {
    fn from_j(v: &Value) -> Self {
        v.as_i64().unwrap() as i32
    }
    fn to_j(&self) -> Value {
        json!(self)
    }
}
// floats travel as their bit patterns
impl Elem for f32 {
    fn from_j(v: &Value) -> Self {
        j2f(v)
    }
    fn to_j(&self) -> Value {
        f2j(*self)
    }
}
impl Elem for Item {
    fn from_j(v: &Value) -> Self {
        j2item(v)
    }
    fn to_j(&self) -> Value {
        item2j(self)
    }
    fn deep(n: usize, leaf: i32) -> Option<Self> {
        let mut it = Item::int(leaf);
        for k in 1..=n {
            it = Item::list(vec![it, Item::int(k as i32)]);
        }
        Some(it)
    }
}

fn stack_contents<T: Elem>(s: &PushStack<T>) -> Value {
    json!({"s": (0..s.size()).map(|i| s.get(i).unwrap().to_j()).collect::<Vec<_>>()})
}

fn stack_op<T: Elem>(s: &mut PushStack<T>, m: &str, a: &[Value]) -> Value {
    match m {
        "to_string" => val(json!(s.to_string())),
        // an element nested far deeper than an event can carry is pushed, printed, probed and popped again:
        // the printed stack, the printed copy of the element, equal_at with itself and with one that differs in the leaf
        "deep_probe" => {
            let (n, leaf) = (us(&a[0]), a[1].as_i64().unwrap() as i32);
            match (T::deep(n, leaf), T::deep(n, leaf + 1)) {
                (Some(d), Some(other)) => {
                    s.push(d.clone());
                    let text = s.to_string();
                    let copy = s.copy(0).map(|x| x.to_string()).unwrap_or_default();
                    let same = s.equal_at(0, &d);
                    let differs = s.equal_at(0, &other);
                    let back = s.pop().map(|x| x == d).unwrap_or(false);
                    val(json!({"text": text, "copy": copy, "same": same, "other": differs, "back": back}))
                }
                _ => none(),
            }
        }
        "size" => val(json!(s.size())),
        "last_eq" => val(json!(s.last_eq(&T::from_j(&a[0])))),
        "equal_at" => opt(s.equal_at(us(&a[0]), &T::from_j(&a[1])), |b| json!(b)),
        "bottom_mut" => opt(s.bottom_mut().map(|x| x.clone()), |x| x.to_j()),
        "flush" => {
            s.flush();
            unit()
        }
        "replace" => match s.replace(us(&a[0]), T::from_j(&a[1])) {
            Ok(()) => json!({"t": "ok", "v": 0}),
            // (offsets near usize::MAX in the encoding of positions: -1 = usize::MAX, -2 = usize::MAX - 1, ...)
            Err(k) => json!({"t": "err", "v": if k > i32::MAX as usize { -((usize::MAX - k) as i64) - 1 } else { k as i64 }}),
        },
        // Clone::clone_from: the stack becomes a copy of another one, whatever it held before
        "clone_from" => {
            let other: PushStack<T> = PushStack::from_vec(a[0].as_array().unwrap().iter().map(T::from_j).collect());
            s.clone_from(&other);
            unit()
        }
        "remove" => {
            s.remove(us(&a[0]));
            unit()
        }
        "reverse" => {
            s.reverse();
            unit()
        }
        "get_mut" => opt(s.get_mut(us(&a[0])).map(|x| x.clone()), |x| x.to_j()),
        "get" => opt(s.get(us(&a[0])).cloned(), |x| x.to_j()),
        "push" => {
            s.push(T::from_j(&a[0]));
            unit()
        }
        "push_front" => {
            s.push_front(T::from_j(&a[0]));
            unit()
        }
        "yank" => {
            s.yank(us(&a[0]));
            unit()
        }
        "shove" => {
            s.shove(us(&a[0]));
            unit()
        }
        "pop_front" => opt(s.pop_front(), |x| x.to_j()),
        "pop" => opt(s.pop(), |x| x.to_j()),
        "pop_vec" => opt(s.pop_vec(us(&a[0])), |v| json!(v.iter().map(|x| x.to_j()).collect::<Vec<_>>())),
        "copy" => opt(s.copy(us(&a[0])), |x| x.to_j()),
        "copy_vec" => opt(s.copy_vec(us(&a[0])), |v| json!(v.iter().map(|x| x.to_j()).collect::<Vec<_>>())),
        "push_vec" => {
            s.push_vec(a[0].as_array().unwrap().iter().map(T::from_j).collect());
            unit()
        }
        "from_vec" => {
            *s = PushStack::from_vec(a[0].as_array().unwrap().iter().map(T::from_j).collect());
            unit()
        }
        "clone" => {
            let c = s.clone();
            val(stack_contents(&c)["s"].clone())
        }
        _ => json!({"t": "harness", "v": "unknown method"}),
    }
}

fn run_stack<T: Elem>(case: &Value, out: &mut dyn Write) {
    let mut s: PushStack<T> = vec2stack(&case["init"], T::from_j);
    let mut first = Some(stack_contents(&s));
    for (i, op) in case["ops"].as_array().unwrap().iter().enumerate() {
        let m = op["m"].as_str().unwrap().to_string();
        let args = op["args"].as_array().cloned().unwrap_or_default();
        let r = catch_unwind(AssertUnwindSafe(|| stack_op(&mut s, &m, &args)));
        let mut ev = json!({"id": case["id"], "i": i, "act": {"a": "stack", "m": m, "args": args, "elem": case["elem"]}});
        if let Some(p) = first.take() {
            ev["pre"] = p;
        }
        match r {
            Ok(ret) => {
                ev["ret"] = ret;
                ev["post"] = stack_contents(&s);
                writeln!(out, "{}", ev).unwrap();
            }
            Err(e) => {
                ev["post"] = json!({"crash": "panic", "msg": panic_msg(e)});
                writeln!(out, "{}", ev).unwrap();
                return;
            }
        }
    }
}

// ------------------------------------------------------------------------------------------------
// PushBuffer<i32>: abstract observations plus the cursors read from the Debug output

fn debug_field(dbg: &str, name: &str) -> i64 {
    let key = format!("{}: ", name);
    let i = dbg.find(&key).map(|p| p + key.len()).unwrap_or(0);
    dbg[i..].chars().take_while(|c| c.is_ascii_digit()).collect::<String>().parse().unwrap_or(-1)
}
fn debug_container(dbg: &str) -> Vec<i64> {
    let key = "container: [";
    let i = dbg.find(key).map(|p| p + key.len()).unwrap_or(0);
    let j = dbg[i..].find(']').map(|p| p + i).unwrap_or(i);
    dbg[i..j].split(',').filter_map(|t| t.trim().parse().ok()).collect()
}
fn buffer_state(b: &PushBuffer<i32>) -> Value {
    // the abstract state through the public API (iteration oldest first, indexed access in the buffer's own order);
    // the cursors and cells of the current ring representation only if the Debug output still shows them
    let dbg = format!("{:?}", b);
    let (s, e, l) = (debug_field(&dbg, "start"), debug_field(&dbg, "end"), debug_field(&dbg, "len"));
    let cells = debug_container(&dbg);
    let ring = if s >= 0 && e >= 0 && l >= 0 && dbg.contains("container: [") && cells.len() == b.capacity() {
        json!({"t": "ring", "cap": b.capacity(), "start": s, "end": e, "len": l, "cells": cells})
    } else {
        json!({"t": "opaque"})
    };
    json!({"cap": b.capacity(), "size": b.size(), "live": b.iter().copied().collect::<Vec<i32>>(),
           "by_get": (0..b.size()).map(|i| b.get(i).copied()).collect::<Vec<_>>(), "ring": ring})
}
fn buffer_op(b: &mut PushBuffer<i32>, m: &str, a: &[Value]) -> Value {
    match m {
        "capacity" => val(json!(b.capacity())),
        "size" => val(json!(b.size())),
        "to_string" => val(json!(b.to_string())),
        "copy" => opt(b.copy(us(&a[0])), |x| json!(x)),
        "copy_oldest" => opt(b.copy_oldest(), |x| json!(x)),
        "flush" => {
            b.flush();
            unit()
        }
        "get" => opt(b.get(us(&a[0])).copied(), |x| json!(x)),
        "get_mut" => opt(b.get_mut(us(&a[0])).map(|x| *x), |x| json!(x)),
        "is_empty" => val(json!(b.is_empty())),
        "is_full" => val(json!(b.is_full())),
        "push" => {
            b.push(a[0].as_i64().unwrap() as i32);
            unit()
        }
        "push_force" => {
            b.push_force(a[0].as_i64().unwrap() as i32);
            unit()
        }
        "pop" => opt(b.pop(), |x| json!(x)),
        "peek_oldest" => opt(b.peek_oldest().copied(), |x| json!(x)),
        "peek_newest" => opt(b.peek_newest().copied(), |x| json!(x)),
        "iter" => val(json!(b.iter().copied().collect::<Vec<i32>>())),
        "iter_len" => val(json!(b.iter().len())),
        "iter_skip" => val(json!(b.iter().skip(us(&a[0])).copied().collect::<Vec<i32>>())),
        "iter_nth" => opt(b.iter().nth(us(&a[0])).copied(), |x| json!(x)),
        "iter_step" => val(json!(b.iter().step_by(us(&a[0]).max(1)).copied().collect::<Vec<i32>>())),
        "iter_last" => opt(b.iter().last().copied(), |x| json!(x)),
        _ => json!({"t": "harness", "v": "unknown method"}),
    }
}
fn run_buffer(case: &Value, out: &mut dyn Write) {
    let kind = case["kind"].as_str().unwrap().to_string();
    let mut b: PushBuffer<i32> = new_buffer(&kind, us(&case["cap"]));
    let mut first = Some(buffer_state(&b));
    for (i, op) in case["ops"].as_array().unwrap().iter().enumerate() {
        let m = op["m"].as_str().unwrap().to_string();
        let args = op["args"].as_array().cloned().unwrap_or_default();
        let r = catch_unwind(AssertUnwindSafe(|| buffer_op(&mut b, &m, &args)));
        let mut ev = json!({"id": case["id"], "i": i, "act": {"a": "buffer", "m": m, "args": args, "kind": kind}});
        if let Some(p) = first.take() {
            ev["pre"] = p;
        }
        match r {
            Ok(ret) => {
                ev["ret"] = ret;
                ev["post"] = buffer_state(&b);
                writeln!(out, "{}", ev).unwrap();
            }
            Err(e) => {
                ev["post"] = json!({"crash": "panic", "msg": panic_msg(e)});
                writeln!(out, "{}", ev).unwrap();
                return;
            }
        }
    }
}

// ------------------------------------------------------------------------------------------------
// Graph API: a list of graphs (index 0 = the working graph, further entries = snapshots taken by clone)

fn graphs_state(gs: &[Graph]) -> Value {
    json!({"gs": gs.iter().map(graph2j).collect::<Vec<_>>(),
           "nid": clamp_i32(pushr::push::graph::verif_node_counter() as u128)})
}
fn sorted_i32(mut v: Vec<i32>) -> Vec<i32> {
    v.sort();
    v
}
fn graph_op(gs: &mut Vec<Graph>, m: &str, a: &[Value]) -> Value {
    let f = |v: &Value| j2f(v);
    match m {
        "add_node" => val(json!(gs[0].add_node(a[0].as_i64().unwrap() as i32))),
        "remove_node" => {
            gs[0].remove_node(us(&a[0]));
            unit()
        }
        "add_edge" => {
            gs[0].add_edge(us(&a[0]), us(&a[1]), f(&a[2]));
            unit()
        }
        "remove_edge" => {
            gs[0].remove_edge(us(&a[0]), us(&a[1]));
            unit()
        }
        "get_state" => opt(gs[0].get_state(&us(&a[0])), |x| json!(x)),
        "set_state" => {
            gs[0].set_state(&us(&a[0]), a[1].as_i64().unwrap() as i32);
            unit()
        }
        "get_weight" => opt(gs[0].get_weight(&us(&a[0]), &us(&a[1])), f2j),
        "set_weight" => {
            gs[0].set_weight(&us(&a[0]), &us(&a[1]), f(&a[2]));
            unit()
        }
        "node_size" => val(json!(gs[0].node_size())),
        "edge_size" => val(json!(gs[0].edge_size())),
        "filter" => {
            let st: Vec<i32> = a[0].as_array().unwrap().iter().map(|x| x.as_i64().unwrap() as i32).collect();
            val(json!(sorted_i32(gs[0].filter(&st))))
        }
        // snapshot: a clone is inserted behind the working graph
        "clone" => {
            let c = gs[0].clone();
            gs.insert(1, c);
            unit()
        }
        // diff(snapshot k, working graph): is a textual difference reported?
        "diff" => {
            let k = us(&a[0]);
            if k < gs.len() {
                val(json!(gs[k].diff(&gs[0]).is_some()))
            } else {
                none()
            }
        }
        // the same question asked the other way round: diff(working graph, snapshot k)
        "diff_rev" => {
            let k = us(&a[0]);
            if k < gs.len() {
                val(json!(gs[0].diff(&gs[k]).is_some()))
            } else {
                none()
            }
        }
        // the textual forms themselves
        "to_string" => val(json!(gs[0].to_string())),
        "diff_text" => {
            let k = us(&a[0]);
            if k < gs.len() {
                match gs[k].diff(&gs[0]) {
                    Some(t) => val(json!(t)),
                    None => unit(),
                }
            } else {
                none()
            }
        }
        "eq" => {
            let k = us(&a[0]);
            if k < gs.len() {
                val(json!(gs[k] == gs[0]))
            } else {
                none()
            }
        }
        _ => json!({"t": "harness", "v": "unknown method"}),
    }
}
fn run_graph(case: &Value, out: &mut dyn Write) {
    if let Some(n) = case.get("nid").and_then(|n| n.as_u64()) {
        pushr::push::graph::verif_set_node_counter(n as usize);
    }
    let mut gs: Vec<Graph> = vec![Graph::new()];
    let mut first = Some(graphs_state(&gs));
    for (i, op) in case["ops"].as_array().unwrap().iter().enumerate() {
        let m = op["m"].as_str().unwrap().to_string();
        let args = op["args"].as_array().cloned().unwrap_or_default();
        let r = catch_unwind(AssertUnwindSafe(|| graph_op(&mut gs, &m, &args)));
        let mut ev = json!({"id": case["id"], "i": i, "act": {"a": "graph", "m": m, "args": args}});
        if let Some(p) = first.take() {
            ev["pre"] = p;
        }
        match r {
            Ok(ret) => {
                ev["ret"] = ret;
                ev["post"] = graphs_state(&gs);
                writeln!(out, "{}", ev).unwrap();
            }
            Err(e) => {
                ev["post"] = json!({"crash": "panic", "msg": panic_msg(e)});
                writeln!(out, "{}", ev).unwrap();
                return;
            }
        }
    }
}

// ------------------------------------------------------------------------------------------------
// stateless calls: topology, item functions, generators. One event per call; "post" is a dummy.

fn run_calls(case: &Value, out: &mut dyn Write) {
    let api = case["api"].as_str().unwrap().to_string();
    for (i, op) in case["ops"].as_array().unwrap().iter().enumerate() {
        let m = op["m"].as_str().unwrap().to_string();
        let a = op["args"].as_array().cloned().unwrap_or_default();
        let st = case.get("state").cloned();
        let r = catch_unwind(AssertUnwindSafe(|| match api.as_str() {
            "topo" => topo_call(&m, &a),
            "item" => item_call(&m, &a),
            "gen" => gen_call(&m, &a, st.as_ref()),
            _ => json!({"t": "harness", "v": "unknown api"}),
        }));
        let mut ev = json!({"id": case["id"], "i": i, "act": {"a": api, "m": m, "args": a}, "pre": {"none": 0}});
        match r {
            Ok(ret) => {
                ev["ret"] = ret;
                ev["post"] = json!({"none": 0});
            }
            Err(e) => {
                ev["post"] = json!({"crash": "panic", "msg": panic_msg(e)});
            }
        }
        writeln!(out, "{}", ev).unwrap();
    }
}

fn topo_call(m: &str, a: &[Value]) -> Value {
    match m {
        "find_neighbors" => opt(
            Topology::find_neighbors(&us(&a[0]), &us(&a[1]), &us(&a[2]), &j2f(&a[3])),
            |v| json!(v.values),
        ),
        "decompose_index" => opt(Topology::decompose_index(&us(&a[0]), &us(&a[1]), &us(&a[2])), |v| json!(v)),
        "euclidean_distance" => {
            let x: Vec<usize> = a[0].as_array().unwrap().iter().map(us).collect();
            let y: Vec<usize> = a[1].as_array().unwrap().iter().map(us).collect();
            opt(Topology::euclidean_distance(&x, &y), f2j)
        }
        _ => json!({"t": "harness", "v": "unknown method"}),
    }
}

fn item_call(m: &str, a: &[Value]) -> Value {
    match m {
        "size" => val(json!(Item::size(&j2item(&a[0])))),
        "shallow_size" => val(json!(Item::shallow_size(&j2item(&a[0])))),
        "traverse" => match Item::traverse(&j2item(&a[0]), us(&a[1])) {
            Ok(it) => some(item2j(&it)),
            Err(_) => none(),
        },
        "insert" => {
            let mut it = j2item(&a[0]);
            let r = Item::insert(&mut it, &j2item(&a[1]), us(&a[2]));
            // the whole-item case (index 0) is completed the way CODE.INSERT does
            let res = if r == Ok(true) { j2item(&a[1]) } else { it };
            json!({"t": if r.is_ok() { "some" } else { "none" }, "v": item2j(&res)})
        }
        // (an optional third argument: the index the search starts counting from)
        "contains" => match Item::contains(&j2item(&a[0]), &j2item(&a[1]), if a.len() > 2 { us(&a[2]) } else { 0 }) {
            Ok(p) => val(json!(p)),
            Err(()) => val(json!(-1)),
        },
        "container" => match Item::container(&j2item(&a[0]), &j2item(&a[1])) {
            Ok(it) => some(item2j(&it)),
            Err(_) => none(),
        },
        "substitute" => {
            let mut it = j2item(&a[0]);
            let whole = Item::substitute(&mut it, &j2item(&a[1]), &j2item(&a[2]));
            val(item2j(&if whole { j2item(&a[2]) } else { it }))
        }
        "equals" => val(json!(Item::equals(&j2item(&a[0]), &j2item(&a[1])))),
        "shallow_eq" => val(json!(j2item(&a[0]) == j2item(&a[1]))),
        // find(item, pattern, start count, n): the n-th point of the pattern's kind, counted depth-first from the top
        "find" => {
            let mut cnt = us(&a[2]);
            match Item::find(&j2item(&a[0]), &j2item(&a[1]), &mut cnt, &us(&a[3])) {
                Ok(it) => json!({"t": "ok", "v": item2j(&it)}),
                Err(k) => json!({"t": "err", "v": k}),
            }
        }
        "to_string" => val(json!(j2item(&a[0]).to_string())),
        _ => json!({"t": "harness", "v": "unknown method"}),
    }
}

fn gen_call(m: &str, a: &[Value], st: Option<&Value>) -> Value {
    let mut state: PushState = match st {
        Some(s) => build(s),
        None => PushState::new(),
    };
    let cache = |v: &Value| InstructionCache::new(v.as_array().unwrap().iter().map(|x| x.as_str().unwrap().to_string()).collect());
    match m {
        // the instruction CODE.RAND itself, handed the given instruction list (what the interpreter does with the list it is given)
        "code_rand_instr" => {
            let mut iset = InstructionSet::new();
            iset.load();
            state.int_stack.push(a[1].as_i64().unwrap() as i32);
            let c = cache(&a[0]);
            let before = state.code_stack.size();
            if let Some(ins) = iset.get_instruction("CODE.RAND") {
                (ins.execute)(&mut state, &c);
            }
            if state.code_stack.size() > before {
                opt(state.code_stack.pop(), |it| item2j(&it))
            } else {
                none()
            }
        }
        "random_code" => opt(CodeGenerator::random_code(&state, &cache(&a[0]), us(&a[1])), |it| item2j(&it)),
        "random_code_with_size" => some(item2j(&CodeGenerator::random_code_with_size(&state, &cache(&a[0]), us(&a[1])))),
        "decompose" => {
            let mut v = vec![];
            CodeGenerator::decompose(&mut v, us(&a[0]));
            some(json!(v))
        }
        "random_bool_vector" => opt(CodeGenerator::random_bool_vector(a[0].as_i64().unwrap() as i32, j2f(&a[1])), |v| json!(v.values)),
        "random_int_vector" => opt(
            CodeGenerator::random_int_vector(a[0].as_i64().unwrap() as i32, a[1].as_i64().unwrap() as i32, a[2].as_i64().unwrap() as i32),
            |v| json!(v.values),
        ),
        "random_float_vector" => opt(
            CodeGenerator::random_float_vector(a[0].as_i64().unwrap() as i32, j2f(&a[1]), j2f(&a[2])),
            |v| json!(v.values.iter().map(|f| f2j(*f)).collect::<Vec<_>>()),
        ),
        // a long vector: only its length and its number of TRUE bits
        "random_bool_vector_count" => {
            let (n, sp) = (a[0].as_i64().unwrap() as i32, j2f(&a[1]));
            match CodeGenerator::random_bool_vector(n, sp) {
                Some(v) => some(json!({"len": v.values.len() as i64, "trues": v.values.iter().filter(|b| **b).count() as i64})),
                None => none(),
            }
        }
        // many draws at once: which positions were ever TRUE, and the range of TRUE counts
        "random_bool_vector_cover" => {
            let (n, sp, draws) = (a[0].as_i64().unwrap() as i32, j2f(&a[1]), us(&a[2]));
            let mut ever = vec![false; n.max(0) as usize];
            let (mut cmin, mut cmax, mut nones) = (i64::MAX, -1i64, 0);
            for _ in 0..draws {
                match CodeGenerator::random_bool_vector(n, sp) {
                    Some(v) => {
                        let c = v.values.iter().filter(|b| **b).count() as i64;
                        cmin = cmin.min(c);
                        cmax = cmax.max(c);
                        for (i, b) in v.values.iter().enumerate() {
                            if *b && i < ever.len() {
                                ever[i] = true;
                            }
                        }
                    }
                    None => nones += 1,
                }
            }
            some(json!({"ever": ever, "cmin": if cmax < 0 { 0 } else { cmin }, "cmax": cmax.max(0), "nones": nones}))
        }
        "random_int_vector_stats" => {
            let (n, lo, hi, draws) = (a[0].as_i64().unwrap() as i32, a[1].as_i64().unwrap() as i32, a[2].as_i64().unwrap() as i32, us(&a[3]));
            let (mut mn, mut mx, mut cnt, mut bad) = (i64::MAX, i64::MIN, 0i64, 0i64);
            for _ in 0..draws {
                if let Some(v) = CodeGenerator::random_int_vector(n, lo, hi) {
                    if v.values.len() != n as usize {
                        bad += 1;
                    }
                    for x in v.values {
                        mn = mn.min(x as i64);
                        mx = mx.max(x as i64);
                        cnt += 1;
                    }
                }
            }
            some(json!({"min": if cnt == 0 { 0 } else { mn }, "max": if cnt == 0 { 0 } else { mx }, "count": clamp_i32(cnt as u128), "badlen": bad}))
        }
        "random_integer_stats" => {
            let draws = us(&a[2]);
            let (mut mn, mut mx, mut cnt) = (i64::MAX, i64::MIN, 0i64);
            for _ in 0..draws {
                if let Some(x) = CodeGenerator::random_integer(&state) {
                    mn = mn.min(x as i64);
                    mx = mx.max(x as i64);
                    cnt += 1;
                }
            }
            some(json!({"min": if cnt == 0 { 0 } else { mn }, "max": if cnt == 0 { 0 } else { mx }, "count": clamp_i32(cnt as u128)}))
        }
        "random_float_many" => {
            let draws = us(&a[2]);
            let v: Vec<Value> = (0..draws).filter_map(|_| CodeGenerator::random_float(&state)).map(f2j).collect();
            some(json!(v))
        }
        "random_float" => opt(CodeGenerator::random_float(&state), f2j),
        "random_integer" => opt(CodeGenerator::random_integer(&state), |x| json!(x)),
        "existing_random_name" => some(json!(CodeGenerator::existing_random_name(&state))),
        "new_random_name" => some(json!(CodeGenerator::new_random_name())),
        _ => json!({"t": "harness", "v": "unknown method"}),
    }
}

// ------------------------------------------------------------------------------------------------
// InstructionSet as an object: new / load / add (custom closures push their tag on INTEGER) / is / get / cache / exec

fn iset_state(s: &InstructionSet) -> Value {
    let mut names = s.cache().list;
    names.sort();
    json!({"names": names})
}
fn iset_op(s: &mut InstructionSet, m: &str, a: &[Value]) -> Value {
    match m {
        "load" => {
            s.load();
            unit()
        }
        "add" => {
            let k = a[1].as_i64().unwrap() as i32;
            let old = s.add(a[0].as_str().unwrap().to_string(),
                            Instruction::new(move |st: &mut PushState, _c: &InstructionCache| st.int_stack.push(k)));
            val(json!(old.is_some()))
        }
        "is" => val(json!(s.is_instruction(a[0].as_str().unwrap()))),
        "get" => val(json!(s.get_instruction(a[0].as_str().unwrap()).is_some())),
        "cache_len" => val(json!(s.cache().list.len())),
        "exec" => {
            let mut st = PushState::new();
            st.int_stack.push(2);
            st.int_stack.push(3);
            st.exec_stack.push(Item::instruction(a[0].as_str().unwrap().to_string()));
            let cache = s.cache();
            PushInterpreter::step(&mut st, s, &cache);
            let mut ints = vec![];
            while let Some(x) = st.int_stack.pop() {
                ints.push(x);
            }
            val(json!(ints))
        }
        _ => json!({"t": "harness", "v": "unknown method"}),
    }
}
fn run_iset(case: &Value, out: &mut dyn Write) {
    let mut s = InstructionSet::new();
    let mut first = Some(iset_state(&s));
    for (i, op) in case["ops"].as_array().unwrap().iter().enumerate() {
        let m = op["m"].as_str().unwrap().to_string();
        let args = op["args"].as_array().cloned().unwrap_or_default();
        let r = catch_unwind(AssertUnwindSafe(|| iset_op(&mut s, &m, &args)));
        let mut ev = json!({"id": case["id"], "i": i, "act": {"a": "iset", "m": m, "args": args}});
        if let Some(p) = first.take() {
            ev["pre"] = p;
        }
        match r {
            Ok(ret) => {
                ev["ret"] = ret;
                ev["post"] = iset_state(&s);
                writeln!(out, "{}", ev).unwrap();
            }
            Err(e) => {
                ev["post"] = json!({"crash": "panic", "msg": panic_msg(e)});
                writeln!(out, "{}", ev).unwrap();
                return;
            }
        }
    }
}

pub fn run_api_case(case: &Value, out: &mut dyn Write) {
    match case["api"].as_str().unwrap_or("") {
        "iset" => run_iset(case, out),
        "stack" => {
            if case["elem"].as_str() == Some("item") {
                run_stack::<Item>(case, out)
            } else if case["elem"].as_str() == Some("float") {
                run_stack::<f32>(case, out)
            } else {
                run_stack::<i32>(case, out)
            }
        }
        "buffer" => run_buffer(case, out),
        "graph" => run_graph(case, out),
        "topo" | "item" | "gen" => run_calls(case, out),
        _ => {
            writeln!(out, "{}", json!({"id": case["id"], "i": 0, "act": {"a": "unknown-api"}, "post": {"crash": "harness", "msg": "unknown api"}})).unwrap();
        }
    }
}
