//! Prints the sorted list of registered instruction names (default set, without harness additions).
use pushr::push::instructions::InstructionSet;
fn main() {
    let mut iset = InstructionSet::new();
    iset.load();
    let mut names = iset.cache().list;
    names.sort();
    println!("{}", serde_json::json!(names));
}
