//! pv-exec CASES.ndjson EVENTS.ndjson [START]
//! Executes every case (from line START, 0-based) and appends its events. Before a case is
//! executed its line number is written to EVENTS.ndjson.progress, so that a supervisor can tell
//! which case was running when the process aborted or hung.

use pv::exec::{silence_panics, Runner};
use std::fs::{File, OpenOptions};
use std::io::{BufRead, BufReader, BufWriter, Write};

fn main() {
    let args: Vec<String> = std::env::args().collect();
    if args.len() < 3 {
        eprintln!("usage: pv-exec CASES EVENTS [START]");
        std::process::exit(2);
    }
    let start: usize = args.get(3).map(|s| s.parse().unwrap()).unwrap_or(0);
    silence_panics();
    let inp = BufReader::new(File::open(&args[1]).expect("cases file"));
    let mut out = BufWriter::new(
        OpenOptions::new().create(true).append(true).open(&args[2]).expect("events file"),
    );
    let progress_path = format!("{}.progress", &args[2]);
    // PV_UNGUARDED: run without the C01 resource envelope (used by the C15 check under supervision)
    let mut runner = Runner::new_with(std::env::var("PV_UNGUARDED").is_err());
    for (n, line) in inp.lines().enumerate() {
        if n < start {
            continue;
        }
        let line = line.expect("read");
        if line.trim().is_empty() {
            continue;
        }
        let case: serde_json::Value = match serde_json::from_str(&line) {
            Ok(c) => c,
            Err(e) => {
                eprintln!("bad case line {}: {}", n, e);
                std::process::exit(2);
            }
        };
        std::fs::write(&progress_path, format!("{}", n)).ok();
        runner.run_case(&case, &mut out);
        out.flush().unwrap();
    }
    std::fs::write(&progress_path, "done").ok();
}
