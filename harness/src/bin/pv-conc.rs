//! pv-conc det CASES OUT THREADS   : every thread executes every case (each in its own order) on its own
//!                                    interpreter instance; one event per case lists the final state of every run
//! pv-conc ids OUT THREADS PER ROUNDS : concurrent node creation; one event per round with the ids each thread got
//! pv-conc cli BINARY CASES OUT    : the pushr command-line front end against the library, step by step

use pushr::push::graph::Graph;
use pushr::push::interpreter::PushInterpreter;
use pushr::push::item::Item;
use pushr::push::parser::PushParser;
use pushr::push::state::PushState;
use pv::conv::*;
use pv::exec::{silence_panics, Runner};
use rand::seq::SliceRandom;
use rand::SeedableRng;
use serde_json::{json, Value};
use std::fs::File;
use std::io::{BufRead, BufReader, BufWriter, Write};
use std::panic::{catch_unwind, AssertUnwindSafe};
use std::sync::Arc;

fn read_cases(path: &str) -> Vec<Value> {
    BufReader::new(File::open(path).expect("cases"))
        .lines()
        .filter_map(|l| l.ok())
        .filter(|l| !l.trim().is_empty())
        .map(|l| serde_json::from_str(&l).expect("case json"))
        .collect()
}

fn run_one(runner: &mut Runner, case: &Value, t: usize) -> Value {
    // every third thread builds the same abstract state at rotated ring positions (cursors of the INPUT /
    // OUTPUT queues and of the GRAPH stack advanced by earlier traffic): invisible through the public API
    let mut pre = case["pre"].clone();
    if t % 3 == 1 && pre.get("rot").is_none() {
        pre["rot"] = json!({"input": 1 + t, "output": 1 + (t % 5), "graph": 33 * t});
    }
    let mut st = build(&pre);
    let k = case["steps"].as_u64().unwrap_or(100);
    let cache = runner.iset.cache();
    let mut n = 0;
    let iset = &mut runner.iset;
    // (a program that doubles a name or a list with every round weighs gigabytes within its 150 steps - on sixteen
    // threads at once: such a run leaves the resource envelope and is not compared)
    let mut heavy = false;
    let r = catch_unwind(AssertUnwindSafe(|| {
        for _ in 0..k {
            n += 1;
            if PushInterpreter::step(&mut st, iset, &cache) {
                break;
            }
            if pv::exec::state_weight(&st) > 4 * pv::exec::ENV_POINTS {
                heavy = true;
                break;
            }
        }
    }));
    let mut env = runner.env_hit.lock().unwrap().take();
    if heavy {
        env = Some("state heavier than the envelope".to_string());
    }
    if r.is_err() {
        return json!({"crash": true, "steps": n});
    }
    if env.is_some() {
        return json!({"envelope": true, "steps": n});
    }
    let mut fin = project(&st);
    fin.as_object_mut().unwrap().remove("nid"); // the node counter is process-wide by design
    json!({"steps": n, "final": fin})
}

fn det(cases_path: &str, out_path: &str, threads: usize) {
    let cases = Arc::new(read_cases(cases_path));
    let mut handles = vec![];
    for t in 0..threads {
        let cases = cases.clone();
        handles.push(std::thread::spawn(move || {
            let mut order: Vec<usize> = (0..cases.len()).collect();
            if t % 2 == 1 {
                order.reverse();
            }
            if t >= 2 {
                let mut rng = rand::rngs::StdRng::seed_from_u64(t as u64);
                order.shuffle(&mut rng);
            }
            let mut runner = Runner::new();
            let mut res: Vec<(usize, Value)> = vec![];
            for (pos, idx) in order.iter().enumerate() {
                let mut r = run_one(&mut runner, &cases[*idx], t);
                r["thread"] = json!(t);
                r["order"] = json!(pos);
                res.push((*idx, r));
            }
            res
        }));
    }
    let mut per_case: Vec<Vec<Value>> = vec![vec![]; cases.len()];
    for h in handles {
        for (idx, r) in h.join().expect("thread") {
            per_case[idx].push(r);
        }
    }
    let mut out = BufWriter::new(File::create(out_path).expect("out"));
    for (idx, runs) in per_case.into_iter().enumerate() {
        writeln!(out, "{}", json!({"id": cases[idx]["id"], "i": 0, "act": {"a": "det", "threads": threads},
            "pre": {"none": 0}, "runs": runs, "post": {"none": 0}})).unwrap();
    }
}

fn ids(out_path: &str, threads: usize, per: usize, rounds: usize) {
    let mut out = BufWriter::new(File::create(out_path).expect("out"));
    for round in 0..rounds {
        let mut handles = vec![];
        for t in 0..threads {
            handles.push(std::thread::spawn(move || {
                // half of the threads through the Graph API, the others through GRAPH.NODE*ADD
                let mut got: Vec<u64> = Vec::with_capacity(per);
                if t % 2 == 0 {
                    // (every seventh node is removed again at once, on some threads after a snapshot was taken:
                    // its identifier stays used up)
                    let mut g = Graph::new();
                    let mut snaps = vec![];
                    for k in 0..per {
                        let id = g.add_node(0);
                        got.push(id as u64);
                        if k % 7 == 3 {
                            if t % 4 == 0 {
                                snaps.push(g.clone());
                            }
                            g.remove_node(id);
                        }
                    }
                } else {
                    let mut runner = Runner::new();
                    let mut st = PushState::new();
                    st.graph_stack.push(Graph::new());
                    let cache = runner.iset.cache();
                    for _ in 0..per {
                        st.int_stack.push(1);
                        st.exec_stack.push(Item::instruction("GRAPH.NODE*ADD".to_string()));
                        PushInterpreter::step(&mut st, &mut runner.iset, &cache);
                        got.push(st.int_stack.pop().unwrap_or(0) as u64);
                    }
                }
                got
            }));
        }
        let lists: Vec<Vec<u64>> = handles.into_iter().map(|h| h.join().expect("thread")).collect();
        let mut ev = json!({"id": format!("ids-{}", round), "i": 0, "act": {"a": "ids", "threads": threads, "per": per},
            "ids": lists, "post": {"none": 0}});
        if round == 0 {
            ev["pre"] = json!({"none": 0});
        }
        writeln!(out, "{}", ev).unwrap();
    }
}

fn snapshot(st: &PushState) -> Value {
    json!({"exec": st.exec_stack.to_string(), "code": st.code_stack.to_string(), "int": st.int_stack.to_string()})
}

fn cli(binary: &str, cases_path: &str, out_path: &str) {
    let mut out = BufWriter::new(File::create(out_path).expect("out"));
    for case in read_cases(cases_path) {
        let text = case["text"].as_str().unwrap().to_string();
        // the front end has no step limit of its own: a diverging program (or, on a busy machine, a slow start) is cut
        // after 20 s; a run that was cut is compared on the steps it printed only
        const MAX_STEPS: usize = 2000;
        let mut child = std::process::Command::new("timeout").arg("20").arg(binary).arg(&text)
            .stdout(std::process::Stdio::piped()).spawn().expect("run pushr");
        let mut stdout = String::new();
        #[allow(unused_assignments)]
        let mut full = false;
        {
            use std::io::Read;
            let mut limited = child.stdout.take().unwrap().take(8 * 1024 * 1024);
            let mut buf = Vec::new();
            let _ = limited.read_to_end(&mut buf);
            full = buf.len() >= 8 * 1024 * 1024;
            stdout.push_str(&String::from_utf8_lossy(&buf));
        }
        if full {
            // more output than is read: the rest is not needed (a finished process is never killed: its exit code counts)
            let _ = child.kill();
        }
        let status = child.wait().expect("wait pushr");
        // output that was cut (size limit, or the time limit killed the process) may end in the middle of a line or of a
        // block: everything after the last complete block separator is dropped
        let cut_somewhere = full || !status.success();
        let usable: &str = if cut_somewhere {
            match stdout.rfind("\n> EXEC  :") {
                Some(p) => &stdout[..p + 1],
                None => "",
            }
        } else {
            &stdout
        };
        // the front end prints EXEC / CODE / INT before every step
        let mut cli_steps: Vec<Value> = vec![];
        let mut cur = json!({});
        for line in usable.lines() {
            if let Some(r) = line.strip_prefix("> EXEC  : ") {
                cur = json!({"exec": r});
            } else if line == "> EXEC  :" {
                cur = json!({"exec": ""});
            } else if let Some(r) = line.strip_prefix("> CODE  : ") {
                cur["code"] = json!(r);
            } else if line == "> CODE  :" {
                cur["code"] = json!("");
            } else if let Some(r) = line.strip_prefix("> INT   : ") {
                cur["int"] = json!(r);
                cli_steps.push(cur.clone());
            } else if line == "> INT   :" {
                cur["int"] = json!("");
                cli_steps.push(cur.clone());
            }
            if cli_steps.len() >= MAX_STEPS {
                break;
            }
        }
        // the same through the library
        let mut runner = Runner::new();
        let mut st = PushState::new();
        PushParser::parse_program(&mut st, &runner.iset, &text);
        // the library's way of loading a program (PushInterpreter::run); the front end has its own copy routine
        PushInterpreter::copy_to_code_stack(&mut st);
        st.name_bindings.insert("BIN".to_string(), Item::id(binary.to_string()));
        let cache = runner.iset.cache();
        let mut lib_steps: Vec<Value> = vec![];
        let mut lib_done = false;
        // one snapshot before every step, the last one before the step that finds EXEC empty (decided on the state, not
        // on the value step() returns)
        for _ in 0..MAX_STEPS {
            lib_steps.push(snapshot(&st));
            let empty = st.exec_stack.size() == 0;
            let _ = PushInterpreter::step(&mut st, &mut runner.iset, &cache);
            if empty {
                lib_done = true;
                break;
            }
        }
        writeln!(out, "{}", json!({"id": case["id"], "i": 0, "act": {"a": "cli", "text": text}, "pre": {"none": 0},
            "cli": cli_steps, "lib": lib_steps, "exit_ok": status.success(), "done": status.success(),
            "cut": status.code() == Some(124) || status.code().is_none(),
            "lib_done": lib_done,
            "post": {"none": 0}})).unwrap();
    }
}

fn main() {
    let a: Vec<String> = std::env::args().collect();
    silence_panics();
    match a.get(1).map(|s| s.as_str()) {
        Some("det") => det(&a[2], &a[3], a[4].parse().unwrap()),
        Some("ids") => ids(&a[2], a[3].parse().unwrap(), a[4].parse().unwrap(), a[5].parse().unwrap()),
        Some("cli") => cli(&a[2], &a[3], &a[4]),
        _ => {
            eprintln!("usage: pv-conc det|ids|cli ...");
            std::process::exit(2);
        }
    }
}
