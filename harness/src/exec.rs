//! Executes abstract actions against the real pushr code and records what was observed.
//! Case line:   {"id":"..","pre":STATE,"acts":[ACT,..]}   (or {"id","api":{...}} -> api.rs)
//! Event line:  {"id":"..","i":k,"pre":STATE (first act of a case only),"act":ACT,"post":STATE|{"crash":..},"ret":..}

use crate::conv::*;
use pushr::push::instructions::{Instruction, InstructionCache, InstructionSet};
use pushr::push::interpreter::{PushInterpreter, PushInterpreterState};
use pushr::push::parser::PushParser;
use pushr::push::state::PushState;
use serde_json::{json, Value};
use std::io::Write;
use std::panic::{catch_unwind, AssertUnwindSafe};
use std::sync::atomic::{AtomicUsize, Ordering};
use std::sync::{Arc, Mutex};

pub fn silence_panics() {
    std::panic::set_hook(Box::new(|_| {}));
}

pub fn panic_msg(e: Box<dyn std::any::Any + Send>) -> String {
    if let Some(s) = e.downcast_ref::<&str>() {
        s.to_string()
    } else if let Some(s) = e.downcast_ref::<String>() {
        s.clone()
    } else {
        "panic".to_string()
    }
}

pub fn outcome_str(o: &PushInterpreterState) -> &'static str {
    match o {
        PushInterpreterState::NoErrors => "NoErrors",
        PushInterpreterState::StepLimitExceeded => "StepLimitExceeded",
        PushInterpreterState::TimeLimitExceeded => "TimeLimitExceeded",
        PushInterpreterState::GrowthCapExceeded => "GrowthCapExceeded",
    }
}

/// Probe log shared between the harness and the instructions it registers through the public
/// `InstructionSet::add` (VERIF.PROBE / VERIF.SLEEP): values exposed to the probe, in call order.
#[derive(Clone, Default)]
pub struct ProbeLog {
    pub ticks: Arc<Mutex<Vec<Value>>>,
    pub calls: Arc<AtomicUsize>,
}

pub fn sorted_registry(iset: &InstructionSet) -> Vec<String> {
    let mut names = iset.cache().list;
    names.sort();
    names
}

/// Size limit of the resource envelope of property C01 (operand-controlled allocation sizes).
pub const ENV_SIZE: i32 = 2000;
pub const ENV_POINTS: usize = 100_000;

/// Is executing instruction `name` in state `st` (the instruction already popped) outside the
/// resource envelope of C01? Size-like operands beyond ENV_SIZE, EXEC.CMD with a target other than
/// the harmless `true`, or a state holding more than ENV_POINTS code points.
pub fn outside_envelope(name: &str, st: &PushState) -> Option<String> {
    let int_at = |i: usize| st.int_stack.get(i).copied();
    // (PV_ENV_SIZE widens the size limit for stages that look at results of a hundred thousand elements)
    let env_size: i32 = std::env::var("PV_ENV_SIZE").ok().and_then(|s| s.parse().ok()).unwrap_or(ENV_SIZE);
    let too_big = |v: Option<i32>| matches!(v, Some(x) if x > env_size);
    match name {
        "BOOLVECTOR.ONES" | "BOOLVECTOR.ZEROS" | "INTVECTOR.ONES" | "INTVECTOR.ZEROS" | "FLOATVECTOR.ONES"
        | "FLOATVECTOR.ZEROS" | "BOOLVECTOR.RAND" | "INTVECTOR.RAND" | "FLOATVECTOR.RAND" | "FLOATVECTOR.SINE"
        | "LIST.NEIGHBOR*IDS" => {
            if too_big(int_at(0)) {
                return Some(format!("{}: size operand {}", name, int_at(0).unwrap()));
            }
        }
        "LIST.NEIGHBOR*BVALS" | "LIST.NEIGHBOR*IVALS" | "LIST.NEIGHBOR*FVALS" => {
            if too_big(int_at(1)) {
                return Some(format!("{}: size operand {}", name, int_at(1).unwrap()));
            }
        }
        "CODE.RAND" => {
            let m = st.configuration.max_points_in_random_expressions;
            if (m > ENV_SIZE || m < -ENV_SIZE) && matches!(int_at(0), Some(x) if x > ENV_SIZE || x < -ENV_SIZE) {
                return Some("CODE.RAND: size operand and configured maximum beyond the envelope".to_string());
            }
        }
        "EXEC.CMD" => {
            let harmless = match int_at(0) {
                Some(n) if n >= 0 && (n as usize) < st.name_stack.size() => {
                    st.name_stack.get(n as usize).map(|s| s == "true" || s == "printf" || s == "echo" || (std::env::var("PV_CMD_NOTFOUND").is_ok() && cannot_start(s))).unwrap_or(false)
                }
                Some(_) => true, // not enough names or negative count: nothing is spawned
                None => true,
            };
            if !harmless {
                return Some("EXEC.CMD: target is not one of the harmless `true`, `printf`, `echo`".to_string());
            }
        }
        _ => {}
    }
    None
}

/// A command name that the operating system cannot start (so that EXEC.CMD has nothing to run): it holds a NUL
/// byte, or it is a bare name that is in no directory of PATH. Only consulted when PV_CMD_NOTFOUND is set.
pub fn cannot_start(cmd: &str) -> bool {
    if cmd.contains('\0') {
        return true;
    }
    if cmd.is_empty() || cmd.contains('/') {
        return false;
    }
    let path = std::env::var("PATH").unwrap_or_default();
    path.split(':').all(|d| !std::path::Path::new(d).join(cmd).exists())
}

pub fn total_points(st: &PushState) -> usize {
    let mut n = 0;
    for i in 0..st.exec_stack.size() {
        n += pushr::push::item::Item::size(st.exec_stack.get(i).unwrap());
    }
    for i in 0..st.code_stack.size() {
        n += pushr::push::item::Item::size(st.code_stack.get(i).unwrap());
    }
    n
}

/// Code points plus the characters of all names plus the elements of all vectors (what a state weighs in memory).
pub fn state_weight(st: &PushState) -> usize {
    let mut n = total_points(st);
    for i in 0..st.name_stack.size() {
        n += st.name_stack.get(i).unwrap().len();
    }
    for i in 0..st.bool_vector_stack.size() {
        n += st.bool_vector_stack.get(i).unwrap().values.len();
    }
    for i in 0..st.int_vector_stack.size() {
        n += st.int_vector_stack.get(i).unwrap().values.len();
    }
    for i in 0..st.float_vector_stack.size() {
        n += st.float_vector_stack.get(i).unwrap().values.len();
    }
    n + st.size()
}

const GUARDED: [&str; 16] = [
    "BOOLVECTOR.ONES", "BOOLVECTOR.ZEROS", "INTVECTOR.ONES", "INTVECTOR.ZEROS", "FLOATVECTOR.ONES", "FLOATVECTOR.ZEROS",
    "BOOLVECTOR.RAND", "INTVECTOR.RAND", "FLOATVECTOR.RAND", "FLOATVECTOR.SINE", "LIST.NEIGHBOR*IDS",
    "LIST.NEIGHBOR*BVALS", "LIST.NEIGHBOR*IVALS", "LIST.NEIGHBOR*FVALS", "CODE.RAND", "EXEC.CMD",
];

/// Wraps the instructions named in GUARDED: outside the envelope the instruction is NOT executed,
/// the reason is stored in `hit` and the EXEC stack is flushed so that a surrounding run() ends.
pub fn guard_envelope(iset: &mut InstructionSet, hit: Arc<Mutex<Option<String>>>) {
    for name in GUARDED.iter() {
        if let Some(ins) = iset.get_instruction(name) {
            let mut inner = std::mem::replace(&mut ins.execute, Box::new(|_, _| {}));
            let h = hit.clone();
            let nm = name.to_string();
            ins.execute = Box::new(move |st, cache| {
                if let Some(why) = outside_envelope(&nm, st) {
                    *h.lock().unwrap() = Some(why);
                    st.exec_stack.flush();
                } else {
                    (inner)(st, cache)
                }
            });
        }
    }
}

/// The default instruction set plus the harness instructions.
pub fn new_iset(probe: &ProbeLog) -> InstructionSet {
    let mut iset = InstructionSet::new();
    // (one user instruction is registered before the defaults are loaded, the others afterwards: both orders are legitimate)
    iset.add("VERIF.EARLY".to_string(), Instruction::new(|_st: &mut PushState, _c: &InstructionCache| {}));
    iset.load();
    let p = probe.clone();
    iset.add(
        "VERIF.PROBE".to_string(),
        Instruction::new(move |st: &mut PushState, _c: &InstructionCache| {
            // records INDEX.CURRENT of the top index (or -1) and the top INTEGER (or "none")
            let cur = st.index_stack.get(0).map(|i| i.current as i64).unwrap_or(-1);
            let has = st.int_stack.size() > 0;
            let top = st.int_stack.get(0).copied().unwrap_or(0);
            p.ticks.lock().unwrap().push(json!({"cur": cur, "has": has, "int": top}));
        }),
    );
    // a custom instruction whose name is longer than every built-in name (README: the set can be extended by `add`)
    iset.add(
        "VERIF.NOOP*WITH*A*NAME*LONGER*THAN*ANY*BUILTIN*INSTRUCTION".to_string(),
        Instruction::new(|_st: &mut PushState, _c: &InstructionCache| {}),
    );
    // ... and one whose name is not ASCII (byte length and character count differ)
    iset.add(
        "VERIF.NÖÖP*MIT*UMLÄUTEN*ÜBER*DREIUNDZWANZIG*BYTES".to_string(),
        Instruction::new(|_st: &mut PushState, _c: &InstructionCache| {}),
    );
    // ... one that is the longest name in bytes but not in characters, and one with lower-case letters
    iset.add(
        "VERIF.ÄÖÜ*ÄÖÜ*ÄÖÜ*ÄÖÜ*ÄÖÜ*ÄÖÜ*ÄÖÜ*ÄÖÜ*ÄÖÜ*ÄÖÜ*ÄÖÜ*ÄÖÜ*NOOP".to_string(),
        Instruction::new(|_st: &mut PushState, _c: &InstructionCache| {}),
    );
    iset.add(
        "VERIF.MyInstruction".to_string(),
        Instruction::new(|_st: &mut PushState, _c: &InstructionCache| {}),
    );
    // ... without a dot, starting with a lower-case letter, starting with a digit
    // ... and names that would read as an integer / float literal (an instruction name wins)
    // ... names that start like a typed vector literal (the literal reading wins), and names that differ from a
    // built-in instruction in the case of their letters only (different names)
    for name in ["VERIFSQUARE", "verif.lower", "2VERIF", "424242", "4.25", "BOOL[1,0]", "INT[7", "integer.max", "Float.<", "name.cat", "intvector.sum"].iter() {
        iset.add(name.to_string(), Instruction::new(|_st: &mut PushState, _c: &InstructionCache| {}));
    }
    // a user instruction that changes the configuration of the state it runs on: from then on no time is left
    iset.add(
        "VERIF.TIMEUP".to_string(),
        Instruction::new(|st: &mut PushState, _c: &InstructionCache| {
            st.configuration.eval_time_limit = 0;
        }),
    );
    let p2 = probe.clone();
    iset.add(
        "VERIF.SLEEP".to_string(),
        Instruction::new(move |_st: &mut PushState, _c: &InstructionCache| {
            std::thread::sleep(std::time::Duration::from_millis(40));
            p2.calls.fetch_add(1, Ordering::SeqCst);
        }),
    );
    iset
}

/// Wraps every registered instruction so that executions inside `run()` are counted.
pub fn count_instruction_calls(iset: &mut InstructionSet, counter: Arc<AtomicUsize>) {
    for name in iset.cache().list {
        if let Some(ins) = iset.get_instruction(&name) {
            let mut inner = std::mem::replace(&mut ins.execute, Box::new(|_, _| {}));
            let c = counter.clone();
            ins.execute = Box::new(move |st, cache| {
                c.fetch_add(1, Ordering::SeqCst);
                (inner)(st, cache)
            });
        }
    }
}

pub struct Runner {
    pub iset: InstructionSet,
    pub probe: ProbeLog,
    pub env_hit: Arc<Mutex<Option<String>>>,
}

impl Runner {
    /// `guarded`: enforce the C01 resource envelope (the C15 check runs without it).
    pub fn new_with(guarded: bool) -> Self {
        let probe = ProbeLog::default();
        let mut iset = new_iset(&probe);
        let env_hit = Arc::new(Mutex::new(None));
        if guarded {
            guard_envelope(&mut iset, env_hit.clone());
        }
        Runner { iset, probe, env_hit }
    }
    pub fn new() -> Self {
        Runner::new_with(true)
    }

    fn take_env(&self) -> Option<String> {
        self.env_hit.lock().unwrap().take()
    }

    fn take_ticks(&self) -> Vec<Value> {
        std::mem::take(&mut *self.probe.ticks.lock().unwrap())
    }

    /// Executes one case; writes one event line per executed act. A `steps` act expands into one
    /// `step` event per interpreter step.
    pub fn run_case(&mut self, case: &Value, out: &mut dyn Write) {
        let id = case["id"].clone();
        if case.get("api").is_some() {
            crate::api::run_api_case(case, out);
            return;
        }
        let pre = &case["pre"];
        // "fresh": the state as PushState::new() makes it (the specification's EmptyState / DefaultCfg)
        let mut st = if case.get("fresh").is_some() { PushState::new() } else { build(pre) };
        // project(build(pre)) is logged as the pre-state: the trace validator checks it equals `pre`
        let mut first = Some(project(&st));
        let mut i = 0usize;
        let acts = case["acts"].as_array().cloned().unwrap_or_default();
        let _ = self.take_ticks();
        let mut all_ticks: Vec<Value> = vec![];
        let mut crashed = false;
        'acts: for act in acts.iter() {
            let a = act["a"].as_str().unwrap_or("");
            match a {
                "step" | "steps" => {
                    let k = if a == "steps" { act["k"].as_u64().unwrap_or(1) } else { 1 };
                    let cache = self.iset.cache();
                    for _ in 0..k {
                        let iset = &mut self.iset;
                        // (the chain ends with the step that FINDS the EXEC stack empty - decided on the state, whatever
                        // step() returns)
                        let empty_before = st.exec_stack.size() == 0;
                        let r = catch_unwind(AssertUnwindSafe(|| PushInterpreter::step(&mut st, iset, &cache)));
                        let mut ev = json!({"id": id, "i": i, "act": {"a": "step"}});
                        if let Some(p) = first.take() {
                            ev["pre"] = p;
                        }
                        if let Some(p) = case.get("predict") {
                            ev["predict"] = p.clone();
                        }
                        let ticks = self.take_ticks();
                        if !ticks.is_empty() {
                            all_ticks.extend(ticks.iter().cloned());
                            ev["ticks"] = json!(ticks);
                        }
                        if let Some(why) = self.take_env() {
                            ev["envelope"] = json!(why);
                            ev["post"] = json!({"crash": "envelope", "msg": "left the resource envelope"});
                            writeln!(out, "{}", ev).unwrap();
                            { crashed = true; break 'acts; }
                        }
                        if total_points(&st) > ENV_POINTS {
                            ev["envelope"] = json!("more than ENV_POINTS code points");
                            ev["post"] = json!({"crash": "envelope", "msg": "left the resource envelope"});
                            writeln!(out, "{}", ev).unwrap();
                            { crashed = true; break 'acts; }
                        }
                        match r {
                            Ok(done) => {
                                ev["post"] = project(&st);
                                ev["ret"] = json!(done);
                                writeln!(out, "{}", ev).unwrap();
                                if empty_before {
                                    // the step that finds EXEC empty is recorded, then the chain ends
                                    i += 1;
                                    break;
                                }
                            }
                            Err(e) => {
                                ev["post"] = json!({"crash": "panic", "msg": panic_msg(e)});
                                writeln!(out, "{}", ev).unwrap();
                                { crashed = true; break 'acts; }
                            }
                        }
                        i += 1;
                    }
                }
                "run_from_start" => {
                    // the bounded run loop on a fresh copy of the case's pre-state (RAND-free programs:
                    // the chain of single steps recorded before is the independent accounting)
                    let mut st2 = build(pre);
                    self.probe.calls.store(0, Ordering::SeqCst);   // sleeps of the single-step chain do not count
                    let _ = self.take_ticks();
                    let iset = &mut self.iset;
                    let t0 = std::time::Instant::now();
                    let r = catch_unwind(AssertUnwindSafe(|| PushInterpreter::run(&mut st2, iset)));
                    let el = t0.elapsed().as_millis();
                    let mut ev = json!({"id": id, "i": i, "act": act, "elapsed_ms": clamp_i32(el)});
                    ev["run_ticks"] = json!(self.take_ticks());
                    ev["sleeps"] = json!(self.probe.calls.swap(0, Ordering::SeqCst));
                    if let Some(why) = self.take_env() {
                        ev["envelope"] = json!(why);
                        ev["post"] = json!({"crash": "envelope", "msg": "left the resource envelope"});
                        writeln!(out, "{}", ev).unwrap();
                        { crashed = true; break 'acts; }
                    }
                    match r {
                        Ok(o) => {
                            ev["post"] = project(&st2);
                            ev["ret"] = json!(outcome_str(&o));
                            writeln!(out, "{}", ev).unwrap();
                        }
                        Err(e) => {
                            ev["post"] = json!({"crash": "panic", "msg": panic_msg(e)});
                            writeln!(out, "{}", ev).unwrap();
                            { crashed = true; break 'acts; }
                        }
                    }
                    i += 1;
                }
                "run" => {
                    let counter = Arc::new(AtomicUsize::new(0));
                    let t0 = std::time::Instant::now();
                    let iset = &mut self.iset;
                    let r = catch_unwind(AssertUnwindSafe(|| PushInterpreter::run(&mut st, iset)));
                    let el = t0.elapsed().as_millis() as u64;
                    let _ = counter;
                    let mut ev = json!({"id": id, "i": i, "act": act, "elapsed_ms": clamp_i32(el as u128)});
                    if let Some(p) = first.take() {
                        ev["pre"] = p;
                    }
                    ev["ticks"] = json!(self.take_ticks());
                    ev["sleeps"] = json!(self.probe.calls.swap(0, Ordering::SeqCst));
                    if let Some(why) = self.take_env() {
                        ev["envelope"] = json!(why);
                        ev["post"] = json!({"crash": "envelope", "msg": "left the resource envelope"});
                        writeln!(out, "{}", ev).unwrap();
                        { crashed = true; break 'acts; }
                    }
                    match r {
                        Ok(o) => {
                            ev["post"] = project(&st);
                            ev["ret"] = json!(outcome_str(&o));
                            writeln!(out, "{}", ev).unwrap();
                        }
                        Err(e) => {
                            ev["post"] = json!({"crash": "panic", "msg": panic_msg(e)});
                            writeln!(out, "{}", ev).unwrap();
                            { crashed = true; break 'acts; }
                        }
                    }
                    i += 1;
                }
                "parse" => {
                    let text = act["text"].as_str().unwrap_or("").to_string();
                    let iset = &self.iset;
                    let r = catch_unwind(AssertUnwindSafe(|| PushParser::parse_program(&mut st, iset, &text)));
                    let mut ev = json!({"id": id, "i": i, "act": act});
                    if let Some(p) = first.take() {
                        ev["pre"] = p;
                    }
                    match r {
                        Ok(()) => {
                            ev["post"] = project(&st);
                            writeln!(out, "{}", ev).unwrap();
                        }
                        Err(e) => {
                            ev["post"] = json!({"crash": "panic", "msg": panic_msg(e)});
                            writeln!(out, "{}", ev).unwrap();
                            { crashed = true; break 'acts; }
                        }
                    }
                    i += 1;
                }
                "grow" => {
                    // executes up to k steps and reports the largest item seen on EXEC / CODE
                    let k = act["k"].as_u64().unwrap_or(1000);
                    let cap = act["cap"].as_u64().unwrap_or(5000) as usize;
                    let cache = self.iset.cache();
                    let iset = &mut self.iset;
                    let mut maxp = 0usize;
                    let mut maxn = 0usize;
                    let mut n = 0u64;
                    let r = catch_unwind(AssertUnwindSafe(|| {
                        for _ in 0..k {
                            n += 1;
                            let done = PushInterpreter::step(&mut st, iset, &cache);
                            for j in 0..st.exec_stack.size() {
                                maxp = maxp.max(pushr::push::item::Item::size(st.exec_stack.get(j).unwrap()));
                            }
                            for j in 0..st.code_stack.size() {
                                maxp = maxp.max(pushr::push::item::Item::size(st.code_stack.get(j).unwrap()));
                            }
                            for j in 0..st.name_stack.size() {
                                maxn = maxn.max(st.name_stack.get(j).unwrap().len());
                            }
                            if done || maxp > cap || maxn > cap * 200 {
                                break;
                            }
                        }
                    }));
                    let mut ev = json!({"id": id, "i": i, "act": act, "ret": {"max_points": clamp_i32(maxp as u128), "max_name": clamp_i32(maxn as u128), "steps": n}});
                    if let Some(p) = first.take() {
                        ev["pre"] = p;
                    }
                    st.exec_stack.flush();
                    st.code_stack.flush();
                    st.name_stack.flush();
                    match r {
                        Ok(()) => {
                            ev["post"] = json!({"none": 0});
                            writeln!(out, "{}", ev).unwrap();
                        }
                        Err(e) => {
                            ev["post"] = json!({"crash": "panic", "msg": panic_msg(e)});
                            writeln!(out, "{}", ev).unwrap();
                        }
                    }
                    { crashed = true; break 'acts; }
                }
                "parse_summary" => {
                    // for inputs whose tree is too deep to be serialised: crash-freedom and the frame only
                    let text = act["text"].as_str().unwrap_or("").to_string();
                    let iset = &self.iset;
                    let mut before = project(&st);
                    before["exec"] = json!([]);
                    let r = catch_unwind(AssertUnwindSafe(|| PushParser::parse_program(&mut st, iset, &text)));
                    let mut ev = json!({"id": id, "i": i, "act": {"a": "parse_summary", "len": clamp_i32(text.len() as u128)}});
                    if let Some(p) = first.take() {
                        ev["pre"] = p;
                    }
                    match r {
                        Ok(()) => {
                            let n = st.exec_stack.size();
                            st.exec_stack.flush();       // the deep tree is dropped iteratively by PushStack
                            let after = project(&st);
                            ev["ret"] = json!({"exec_len": n, "others_unchanged": after == before});
                            ev["post"] = after;
                            writeln!(out, "{}", ev).unwrap();
                        }
                        Err(e) => {
                            ev["post"] = json!({"crash": "panic", "msg": panic_msg(e)});
                            writeln!(out, "{}", ev).unwrap();
                            { crashed = true; break 'acts; }
                        }
                    }
                    i += 1;
                }
                "roundtrip" => {
                    // print the top EXEC item, parse the text in a fresh state, print again
                    let iset = &self.iset;
                    // "deep": n = instead of the top EXEC item, a tree nested n levels (deeper than an event can carry):
                    // ( n ( n-1 ( ... ( 1 7 ) ... ) ) ); only the texts are recorded
                    let deep = act.get("deep").and_then(|x| x.as_u64());
                    let top = match deep {
                        Some(n) => {
                            let mut it = pushr::push::item::Item::int(7);
                            for k in 1..=n {
                                it = pushr::push::item::Item::list(vec![it, pushr::push::item::Item::int(k as i32)]);
                            }
                            Some(it)
                        }
                        None => st.exec_stack.get(0).cloned(),
                    };
                    let r = catch_unwind(AssertUnwindSafe(|| {
                        let p1 = top.as_ref().map(|t| t.to_string()).unwrap_or_default();
                        let mut fresh = PushState::new();
                        PushParser::parse_program(&mut fresh, iset, &p1);
                        let t2: Vec<Value> = if deep.is_some() { vec![json!({"k": "int", "v": fresh.exec_stack.size() as i64})] } else { stack2vec(&fresh.exec_stack, item2j) };
                        let p2 = fresh.exec_stack.to_string();
                        let untouched = fresh.code_stack.size() + fresh.int_stack.size() + fresh.name_stack.size()
                            + fresh.float_stack.size() + fresh.bool_stack.size() == 0;
                        json!({"p1": p1, "p2": p2, "t2": t2, "untouched": untouched})
                    }));
                    let mut ev = json!({"id": id, "i": i, "act": act, "post": project(&st)});
                    if let Some(p) = first.take() {
                        ev["pre"] = p;
                    }
                    match r {
                        Ok(v) => {
                            ev["ret"] = v;
                            writeln!(out, "{}", ev).unwrap();
                        }
                        Err(e) => {
                            ev["post"] = json!({"crash": "panic", "msg": panic_msg(e)});
                            writeln!(out, "{}", ev).unwrap();
                            { crashed = true; break 'acts; }
                        }
                    }
                    i += 1;
                }
                "add_instr" => {
                    // a user instruction (a no-op) registered in the middle of a case, after the set has been in use
                    let name = act["name"].as_str().unwrap_or("").to_string();
                    self.iset.add(name, Instruction::new(|_st: &mut PushState, _c: &InstructionCache| {}));
                    let mut ev = json!({"id": id, "i": i, "act": act, "post": project(&st)});
                    if let Some(p) = first.take() {
                        ev["pre"] = p;
                    }
                    writeln!(out, "{}", ev).unwrap();
                    i += 1;
                }
                "copy_to_code" => {
                    PushInterpreter::copy_to_code_stack(&mut st);
                    let mut ev = json!({"id": id, "i": i, "act": act, "post": project(&st)});
                    if let Some(p) = first.take() {
                        ev["pre"] = p;
                    }
                    writeln!(out, "{}", ev).unwrap();
                    i += 1;
                }
                "print" => {
                    // textual renderings of the state (no state change)
                    let mut ev = json!({"id": id, "i": i, "act": act, "post": project(&st),
                        "ret": {"exec": st.exec_stack.to_string(), "code": st.code_stack.to_string(),
                                "int": st.int_stack.to_string(), "bool": st.bool_stack.to_string(),
                                "name": st.name_stack.to_string()}});
                    if let Some(p) = first.take() {
                        ev["pre"] = p;
                    }
                    writeln!(out, "{}", ev).unwrap();
                    i += 1;
                }
                "cli" => {
                    // the command-line front end on the same text (PV_CLI_BIN): the stacks it prints before
                    // every step, to be compared with the chain of library steps recorded before this act
                    const MAX_BLOCKS: usize = 400;
                    let bin = std::env::var("PV_CLI_BIN").unwrap_or_default();
                    let text = act["text"].as_str().unwrap_or("").to_string();
                    let mut child = std::process::Command::new("timeout").arg("20").arg(&bin).arg(&text)
                        .stdout(std::process::Stdio::piped()).stderr(std::process::Stdio::null()).spawn().expect("run pushr");
                    let mut stdout = String::new();
                    #[allow(unused_assignments)]
                    let mut full = false;
                    {
                        use std::io::Read;
                        let mut limited = child.stdout.take().unwrap().take(4 * 1024 * 1024);
                        let mut buf = Vec::new();
                        let _ = limited.read_to_end(&mut buf);
            full = buf.len() >= 4 * 1024 * 1024;
                        stdout.push_str(&String::from_utf8_lossy(&buf));
                    }
                    if full {
            // more output than is read: the rest is not needed (a finished process is never killed: its exit code counts)
            let _ = child.kill();
        }
                    let status = child.wait().expect("wait pushr");
                    // output that was cut may end in the middle of a line or of a block: the last, possibly partial block is dropped
                    let usable: &str = if full || !status.success() {
                        match stdout.rfind("\n> EXEC  :") {
                            Some(p) => &stdout[..p + 1],
                            None => "",
                        }
                    } else {
                        &stdout
                    };
                    let mut blocks: Vec<Value> = vec![];
                    let mut cur = json!({});
                    for line in usable.split('\n') {
                        if let Some(r) = line.strip_prefix("> EXEC  : ") {
                            cur = json!({"exec": r});
                        } else if let Some(r) = line.strip_prefix("> CODE  : ") {
                            cur["code"] = json!(r);
                        } else if let Some(r) = line.strip_prefix("> INT   : ") {
                            cur["int"] = json!(r);
                            blocks.push(cur.clone());
                            if blocks.len() >= MAX_BLOCKS {
                                break;
                            }
                        }
                    }
                    let mut ev = json!({"id": id, "i": i, "act": act, "post": project(&st),
                        "ret": {"blocks": blocks, "done": status.success(),
                                "code": status.code().unwrap_or(-1),
                                "capped": blocks.len() >= MAX_BLOCKS || status.code() == Some(124) || status.code().is_none()}});
                    if let Some(p) = first.take() {
                        ev["pre"] = p;
                    }
                    writeln!(out, "{}", ev).unwrap();
                    i += 1;
                }
                "state_text" => {
                    // Display of the whole state (no state change)
                    let mut ev = json!({"id": id, "i": i, "act": act, "post": project(&st), "ret": st.to_string()});
                    if let Some(p) = first.take() {
                        ev["pre"] = p;
                    }
                    writeln!(out, "{}", ev).unwrap();
                    i += 1;
                }
                _ => {
                    writeln!(out, "{}", json!({"id": id, "i": i, "act": act, "post": {"crash": "harness", "msg": "unknown act"}})).unwrap();
                    { crashed = true; break 'acts; }
                }
            }
        }
        // end-of-case summary for behaviour-level expectations (passed through, not interpreted here)
        if !crashed && case.get("expect").is_some() {
            writeln!(out, "{}", json!({"id": id, "i": i, "act": {"a": "end"}, "expect": case["expect"],
                "all_ticks": all_ticks, "post": project(&st)})).unwrap();
        }
    }
}
