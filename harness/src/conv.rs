//! project / build: real pushr values <-> the JSON encoding of the abstract TLA+ state.
//! Sequences are top-first (index 0 = position 0 of `PushStack`). Floats are carried as their
//! IEEE-754 bit pattern reinterpreted as i32 (TLC integers are 32-bit).

use pushr::push::buffer::{BufferType, PushBuffer};
use pushr::push::graph::{Edge, Graph, Node};
use pushr::push::index::Index;
use pushr::push::io::PushMessage;
use pushr::push::item::{Item, PushType};
use pushr::push::stack::PushStack;
use pushr::push::state::PushState;
use pushr::push::vector::{BoolVector, FloatVector, IntVector};
use serde_json::{json, Map, Value};

pub fn f2j(f: f32) -> Value {
    json!(f.to_bits() as i32)
}
pub fn j2f(v: &Value) -> f32 {
    f32::from_bits(v.as_i64().expect("float bits") as i32 as u32)
}
pub fn clamp_i32(x: u128) -> i64 {
    if x > i32::MAX as u128 {
        i32::MAX as i64
    } else {
        x as i64
    }
}

pub fn graph2j(g: &Graph) -> Value {
    let mut ids: Vec<&usize> = g.nodes.keys().collect();
    ids.sort();
    let nodes: Vec<Value> = ids
        .iter()
        .map(|id| {
            let n = &g.nodes[id];
            // the id stored in the node is reported only when it differs from the map key
            if n.get_id() == **id {
                json!({"id": clamp_i32(**id as u128), "st": n.get_state()})
            } else {
                json!({"id": clamp_i32(**id as u128), "nid": clamp_i32(n.get_id() as u128), "st": n.get_state()})
            }
        })
        .collect();
    // canonical form: a destination whose incoming list is empty is not part of the value
    let mut ds: Vec<&usize> = g.edges.iter().filter(|(_, v)| !v.is_empty()).map(|(k, _)| k).collect();
    ds.sort();
    let edges: Vec<Value> = ds
        .iter()
        .map(|d| {
            // canonical form: the incoming edges sorted by origin (their order in the list is an implementation detail)
            let mut es: Vec<_> = g.edges[d].iter().collect();
            es.sort_by_key(|e| e.get_origin_id());
            let inc: Vec<Value> = es
                .iter()
                .map(|e| json!({"o": clamp_i32(e.get_origin_id() as u128), "w": f2j(e.get_weight())}))
                .collect();
            json!({"d": clamp_i32(**d as u128), "in": inc})
        })
        .collect();
    json!({"nodes": nodes, "edges": edges})
}

pub fn j2graph(v: &Value) -> Graph {
    let mut g = Graph::new();
    for n in v["nodes"].as_array().expect("nodes") {
        let id = n["id"].as_u64().expect("node id") as usize;
        let nid = n.get("nid").and_then(|x| x.as_u64()).map(|x| x as usize).unwrap_or(id);
        g.nodes.insert(id, Node::verif_with_id(nid, n["st"].as_i64().unwrap() as i32));
    }
    for e in v["edges"].as_array().expect("edges") {
        let d = e["d"].as_u64().unwrap() as usize;
        let inc: Vec<Edge> = e["in"]
            .as_array()
            .unwrap()
            .iter()
            .map(|x| Edge::new(x["o"].as_u64().unwrap() as usize, j2f(&x["w"])))
            .collect();
        g.edges.insert(d, inc);
    }
    g
}

pub fn item2j(it: &Item) -> Value {
    match it {
        Item::List { items } => {
            let n = items.size();
            let v: Vec<Value> = (0..n).map(|i| item2j(items.get(i).unwrap())).collect();
            json!({"k": "list", "v": v})
        }
        Item::InstructionMeta { name } => json!({"k": "ins", "v": name}),
        Item::Identifier { name } => json!({"k": "id", "v": name}),
        Item::Literal { push_type } => match push_type {
            PushType::Bool { val } => json!({"k": "bool", "v": val}),
            PushType::Int { val } => json!({"k": "int", "v": val}),
            PushType::Float { val } => json!({"k": "float", "v": f2j(*val)}),
            PushType::Index { val } => json!({"k": "index", "v": index2j(val)}),
            PushType::BoolVector { val } => json!({"k": "bvec", "v": val.values}),
            PushType::IntVector { val } => json!({"k": "ivec", "v": val.values}),
            PushType::FloatVector { val } => {
                json!({"k": "fvec", "v": val.values.iter().map(|f| f2j(*f)).collect::<Vec<_>>()})
            }
            PushType::Graph { val } => json!({"k": "graph", "v": graph2j(val)}),
        },
    }
}

pub fn j2item(v: &Value) -> Item {
    let k = v["k"].as_str().expect("item kind");
    let x = &v["v"];
    match k {
        "list" => {
            // JSON is first-item-first (top first); from_vec wants the top last
            let mut items: Vec<Item> = x.as_array().expect("list").iter().map(j2item).collect();
            items.reverse();
            Item::list(items)
        }
        "ins" => Item::instruction(x.as_str().unwrap().to_string()),
        "id" => Item::id(x.as_str().unwrap().to_string()),
        "bool" => Item::bool(x.as_bool().unwrap()),
        "int" => Item::int(x.as_i64().unwrap() as i32),
        "float" => Item::float(j2f(x)),
        "index" => Item::index(j2index(x)),
        "bvec" => Item::boolvec(j2bvec(x)),
        "ivec" => Item::intvec(j2ivec(x)),
        "fvec" => Item::floatvec(j2fvec(x)),
        "graph" => Item::Literal { push_type: PushType::Graph { val: j2graph(x) } },
        _ => panic!("unknown item kind {}", k),
    }
}

pub fn index2j(i: &Index) -> Value {
    json!({"cur": clamp_i32(i.current as u128), "dst": clamp_i32(i.destination as u128)})
}
pub fn j2index(v: &Value) -> Index {
    let mut i = Index::new(v["dst"].as_u64().unwrap() as usize);
    i.current = v["cur"].as_u64().unwrap() as usize;
    i
}
pub fn j2bvec(v: &Value) -> BoolVector {
    BoolVector::new(v.as_array().unwrap().iter().map(|b| b.as_bool().unwrap()).collect())
}
pub fn j2ivec(v: &Value) -> IntVector {
    IntVector::new(v.as_array().unwrap().iter().map(|b| b.as_i64().unwrap() as i32).collect())
}
pub fn j2fvec(v: &Value) -> FloatVector {
    FloatVector::new(v.as_array().unwrap().iter().map(j2f).collect())
}
pub fn msg2j(m: &PushMessage) -> Value {
    json!({"h": m.header.values, "b": m.body.values})
}
pub fn j2msg(v: &Value) -> PushMessage {
    PushMessage::new(j2ivec(&v["h"]), j2bvec(&v["b"]))
}

/// top-first listing of a stack through the public `get`.
pub fn stack2vec<T, F>(s: &PushStack<T>, f: F) -> Vec<Value>
where
    T: Clone + std::fmt::Display + PartialEq + pushr::push::stack::PushPrint,
    F: Fn(&T) -> Value,
{
    (0..s.size()).map(|i| f(s.get(i).unwrap())).collect()
}

/// builds a stack from a top-first JSON array.
pub fn vec2stack<T, F>(v: &Value, f: F) -> PushStack<T>
where
    T: Clone + std::fmt::Display + PartialEq + pushr::push::stack::PushPrint,
    F: Fn(&Value) -> T,
{
    let mut els: Vec<T> = v.as_array().expect("stack array").iter().map(f).collect();
    els.reverse();
    PushStack::from_vec(els)
}

pub fn project(s: &PushState) -> Value {
    let mut bind = Map::new();
    for (k, v) in s.name_bindings.iter() {
        bind.insert(k.clone(), item2j(v));
    }
    let graphs: Vec<Value> = (0..s.graph_stack.size())
        .map(|i| graph2j(s.graph_stack.get(i).unwrap()))
        .collect();
    let c = &s.configuration;
    json!({
        "exec": stack2vec(&s.exec_stack, item2j),
        "code": stack2vec(&s.code_stack, item2j),
        "int": stack2vec(&s.int_stack, |x| json!(x)),
        "float": stack2vec(&s.float_stack, |x| f2j(*x)),
        "bool": stack2vec(&s.bool_stack, |x| json!(x)),
        "name": stack2vec(&s.name_stack, |x| json!(x)),
        "bvec": stack2vec(&s.bool_vector_stack, |x| json!(x.values)),
        "ivec": stack2vec(&s.int_vector_stack, |x| json!(x.values)),
        "fvec": stack2vec(&s.float_vector_stack, |x| json!(x.values.iter().map(|f| f2j(*f)).collect::<Vec<_>>())),
        "index": stack2vec(&s.index_stack, index2j),
        "graph": graphs,
        "input": s.input_stack.iter().map(msg2j).collect::<Vec<_>>(),
        "output": s.output_stack.iter().map(msg2j).collect::<Vec<_>>(),
        "bind": Value::Object(bind),
        "quote": s.quote_name,
        "send": s.send_name,
        "nid": clamp_i32(pushr::push::graph::verif_node_counter() as u128),
        "cfg": {
            "max_f": f2j(c.max_random_float), "min_f": f2j(c.min_random_float),
            "max_i": c.max_random_integer, "min_i": c.min_random_integer,
            "push_limit": c.eval_push_limit,
            "time_limit": clamp_i32(c.eval_time_limit as u128),
            // a cap beyond 32 bits is reported as -1 - (usize::MAX - cap) clamped at -1000 (the trace specification has no
            // 64-bit numbers): "negative = no step can exceed it"
            "growth_cap": if c.growth_cap > i32::MAX as usize { -1 - (usize::MAX - c.growth_cap).min(999) as i64 } else { c.growth_cap as i64 },
            "new_name_p": f2j(c.new_erc_name_probability),
            "max_rand_points": c.max_points_in_random_expressions,
            "max_prog_points": c.max_points_in_program,
            // the capacities in force (a host may install queues of another capacity)
            "in_cap": s.input_stack.capacity(), "out_cap": s.output_stack.capacity(), "graph_cap": s.graph_stack.capacity(),
        }
    })
}

/// `bind` may be an object, or `[]` (how TLC prints an empty function).
pub fn build(v: &Value) -> PushState {
    let mut s = PushState::new();
    s.exec_stack = vec2stack(&v["exec"], j2item);
    s.code_stack = vec2stack(&v["code"], j2item);
    s.int_stack = vec2stack(&v["int"], |x| x.as_i64().unwrap() as i32);
    s.float_stack = vec2stack(&v["float"], j2f);
    s.bool_stack = vec2stack(&v["bool"], |x| x.as_bool().unwrap());
    s.name_stack = vec2stack(&v["name"], |x| x.as_str().unwrap().to_string());
    s.bool_vector_stack = vec2stack(&v["bvec"], j2bvec);
    s.int_vector_stack = vec2stack(&v["ivec"], j2ivec);
    s.float_vector_stack = vec2stack(&v["fvec"], j2fvec);
    s.index_stack = vec2stack(&v["index"], j2index);
    // capacities other than the defaults (optional fields of cfg): the host replaces the public queue fields
    if let Some(cf) = v.get("cfg") {
        let cap = |k: &str, d: usize| cf.get(k).and_then(|x| x.as_u64()).map(|x| x as usize).filter(|x| *x >= 1).unwrap_or(d);
        use pushr::push::buffer::{BufferType, PushBuffer};
        let (ic, oc, gc) = (cap("in_cap", s.input_stack.capacity()), cap("out_cap", s.output_stack.capacity()), cap("graph_cap", s.graph_stack.capacity()));
        if ic != s.input_stack.capacity() { s.input_stack = PushBuffer::new(BufferType::Queue, ic); }
        if oc != s.output_stack.capacity() { s.output_stack = PushBuffer::new(BufferType::Queue, oc); }
        if gc != s.graph_stack.capacity() { s.graph_stack = PushBuffer::new(BufferType::Stack, gc); }
    }
    // optional "rot": the ring cursors are advanced by that many push/pop cycles first, so that the
    // live items sit at a rotated (possibly wrapping) position of the ring; invisible in the abstract state
    let rot = |name: &str| v.get("rot").and_then(|r| r.get(name)).and_then(|k| k.as_u64()).unwrap_or(0);
    for _ in 0..rot("input") {
        s.input_stack.push(PushMessage::default());
        s.input_stack.pop();
    }
    for _ in 0..rot("output") {
        s.output_stack.push(PushMessage::default());
        s.output_stack.pop();
    }
    // a stack-kind ring only moves its cursors forward by forced pushes on a full buffer
    if rot("graph") > 0 {
        let cap = s.graph_stack.capacity();
        for _ in 0..cap {
            s.graph_stack.push(Graph::new());
        }
        for _ in 0..rot("graph") {
            s.graph_stack.push_force(Graph::new());
        }
        while s.graph_stack.pop().is_some() {}
    }
    // graph stack: JSON newest first; push oldest first
    if let Some(gs) = v["graph"].as_array() {
        for g in gs.iter().rev() {
            s.graph_stack.push(j2graph(g));
        }
    }
    if let Some(ms) = v["input"].as_array() {
        for m in ms.iter() {
            s.input_stack.push(j2msg(m));
        }
    }
    if let Some(ms) = v["output"].as_array() {
        for m in ms.iter() {
            s.output_stack.push(j2msg(m));
        }
    }
    if let Some(b) = v["bind"].as_object() {
        for (k, it) in b.iter() {
            s.name_bindings.insert(k.clone(), j2item(it));
        }
    }
    s.quote_name = v["quote"].as_bool().unwrap_or(false);
    s.send_name = v["send"].as_bool().unwrap_or(false);
    if let Some(c) = v.get("cfg").and_then(|c| c.as_object()) {
        let cfg = &mut s.configuration;
        cfg.max_random_float = j2f(&c["max_f"]);
        cfg.min_random_float = j2f(&c["min_f"]);
        cfg.max_random_integer = c["max_i"].as_i64().unwrap() as i32;
        cfg.min_random_integer = c["min_i"].as_i64().unwrap() as i32;
        cfg.eval_push_limit = c["push_limit"].as_i64().unwrap() as i32;
        cfg.eval_time_limit = c["time_limit"].as_u64().unwrap();
        cfg.growth_cap = match c["growth_cap"].as_i64() {
            Some(x) if x < 0 => usize::MAX - ((-x - 1) as usize),      // -1 = usize::MAX, -2 = usize::MAX - 1, ...
            _ => c["growth_cap"].as_u64().unwrap() as usize,
        };
        cfg.new_erc_name_probability = j2f(&c["new_name_p"]);
        cfg.max_points_in_random_expressions = c["max_rand_points"].as_i64().unwrap() as i32;
        cfg.max_points_in_program = c["max_prog_points"].as_i64().unwrap() as i32;
    }
    if let Some(n) = v.get("nid").and_then(|n| n.as_u64()) {
        pushr::push::graph::verif_set_node_counter(n as usize);
    }
    s
}

/// A buffer with arbitrary capacity (used by the container drivers).
pub fn new_buffer<T>(kind: &str, cap: usize) -> PushBuffer<T>
where
    T: Clone + std::fmt::Display + Default + PartialEq + std::fmt::Debug,
{
    PushBuffer::new(
        if kind == "queue" { BufferType::Queue } else { BufferType::Stack },
        cap,
    )
}
