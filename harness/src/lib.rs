//! Conformance harness for pushr: projection of the real `PushState` onto the abstract state of
//! the TLA+ specification (`project`), its inverse (`build`) and the executor of abstract actions.
//! There is deliberately no reference semantics here: all judgement happens in TLC.

pub mod api;
pub mod conv;
pub mod exec;
