------------------------------ MODULE PushGraph -----------------------------
(***************************************************************************)
(* Graph memory (property C18).  A graph value mirrors the implementation  *)
(* level: nodes as a sequence of [id, st] sorted by id, incoming edges as  *)
(* a sequence of [d, in] sorted by destination d, `in` the incoming edges  *)
(* [o, w] of d sorted by origin (canonical: the order of the list in the   *)
(* implementation is not part of the value).  The abstract (set-based) view is  *)
(* given by NodeSet / EdgeSet; GraphInv states the structural invariants.  *)
(* The GRAPH stack is a bounded stack (element 1 = top, capacity 100).     *)
(***************************************************************************)
EXTENDS PushList

EmptyGraph == [nodes |-> <<>>, edges |-> <<>>]
NodeIds(g)     == {g.nodes[i].id : i \in 1..Len(g.nodes)}
HasNode(g, id) == id \in NodeIds(g)
NodeIdx(g, id) == CHOOSE i \in 1..Len(g.nodes) : g.nodes[i].id = id
StateOf(g, id) == g.nodes[NodeIdx(g, id)].st
SetState(g, id, st) == IF HasNode(g, id) THEN [g EXCEPT !.nodes[NodeIdx(g, id)].st = st] ELSE g
\* insert keeping the sequence sorted by key field
RECURSIVE InsertNode(_, _)
InsertNode(ns, n) == IF ns = <<>> THEN <<n>> ELSE IF n.id < Head(ns).id THEN <<n>> \o ns
                     ELSE <<Head(ns)>> \o InsertNode(Tail(ns), n)
RECURSIVE InsertDest(_, _)
InsertDest(es, e) == IF es = <<>> THEN <<e>> ELSE IF e.d < Head(es).d THEN <<e>> \o es
                     ELSE <<Head(es)>> \o InsertDest(Tail(es), e)
AddNode(g, id, st) == [g EXCEPT !.nodes = InsertNode(SelectSeq(g.nodes, LAMBDA n : n.id # id), [id |-> id, st |-> st])]
DestIds(g)     == {g.edges[i].d : i \in 1..Len(g.edges)}
DestIdx(g, d)  == CHOOSE i \in 1..Len(g.edges) : g.edges[i].d = d
Incoming(g, d) == IF d \in DestIds(g) THEN g.edges[DestIdx(g, d)]["in"] ELSE <<>>
HasEdge(g, o, d) == \E i \in 1..Len(Incoming(g, d)) : Incoming(g, d)[i].o = o
EdgeIdx(g, o, d) == CHOOSE i \in 1..Len(Incoming(g, d)) : Incoming(g, d)[i].o = o
RECURSIVE InsertOrigin(_, _)
InsertOrigin(es, e) == IF es = <<>> THEN <<e>> ELSE IF e.o < Head(es).o THEN <<e>> \o es
                       ELSE <<Head(es)>> \o InsertOrigin(Tail(es), e)
\* an edge is added only between existing nodes and only if there is none yet for that pair
AddEdge(g, o, d, w) ==
  IF ~(HasNode(g, o) /\ HasNode(g, d)) \/ HasEdge(g, o, d) THEN g
  ELSE IF d \in DestIds(g)
       THEN [g EXCEPT !.edges[DestIdx(g, d)]["in"] = InsertOrigin(@, [o |-> o, w |-> w])]
       ELSE [g EXCEPT !.edges = InsertDest(@, [d |-> d, in |-> <<[o |-> o, w |-> w]>>])]
WeightOf(g, o, d)  == Incoming(g, d)[EdgeIdx(g, o, d)].w
SetWeight(g, o, d, w) ==
  IF HasEdge(g, o, d) THEN [g EXCEPT !.edges[DestIdx(g, d)]["in"][EdgeIdx(g, o, d)].w = w] ELSE g
\* canonical: a destination whose incoming list became empty is dropped (whether the implementation keeps an empty
\* list under that key is not part of the value)
DropEmpty(g) == [g EXCEPT !.edges = SelectSeq(@, LAMBDA e : e["in"] # <<>>)]
RemoveNode(g, id) ==
  DropEmpty([nodes |-> SelectSeq(g.nodes, LAMBDA n : n.id # id),
             edges |-> LET kept == SelectSeq(g.edges, LAMBDA e : e.d # id) IN
                       [i \in 1..Len(kept) |-> [kept[i] EXCEPT !["in"] = SelectSeq(@, LAMBDA x : x.o # id)]]])
RemoveEdge(g, o, d) ==
  IF d \in DestIds(g) THEN DropEmpty([g EXCEPT !.edges[DestIdx(g, d)]["in"] = SelectSeq(@, LAMBDA x : x.o # o)]) ELSE g

\* abstract view
NodeMap(g) == [id \in NodeIds(g) |-> StateOf(g, id)]
EdgeSet(g) == {<<Incoming(g, d)[i].o, d>> : d \in DestIds(g), i \in 1..0} \cup
              UNION {{<<Incoming(g, d)[i].o, d>> : i \in 1..Len(Incoming(g, d))} : d \in DestIds(g)}
EdgeCount(g) == SumSeq([i \in 1..Len(g.edges) |-> Len(g.edges[i]["in"])])
\* structural invariants of a graph built through the API
GraphInv(g) ==
  /\ \A i \in 1..(Len(g.nodes) - 1) : g.nodes[i].id < g.nodes[i + 1].id
  /\ \A i \in 1..(Len(g.edges) - 1) : g.edges[i].d < g.edges[i + 1].d
  /\ \A p \in EdgeSet(g) : HasNode(g, p[1]) /\ HasNode(g, p[2])                 \* G1
  /\ \A d \in DestIds(g) : \A i, j \in 1..Len(Incoming(g, d)) :
        Incoming(g, d)[i].o = Incoming(g, d)[j].o => i = j                        \* G2

\* queries: the node SETS are specified; the order of every answer is unspecified (list / hash order)
StateOK(states, st) == states = <<>> \/ \E i \in 1..Len(states) : states[i] = st
Preds(g, id, states) ==
  LET inc == SelectSeq(Incoming(g, id), LAMBDA e : HasNode(g, e.o) /\ StateOK(states, StateOf(g, e.o)))
  IN [i \in 1..Len(inc) |-> inc[i].o]
Succs(g, id, states) ==
  LET ds == SelectSeq(g.edges, LAMBDA e : HasEdge(g, id, e.d) /\ HasNode(g, e.d) /\ StateOK(states, StateOf(g, e.d)))
  IN [i \in 1..Len(ds) |-> ds[i].d]
\* an id is listed once per matching entry of the state filter (all ids once when it is empty)
Filter(g, states) ==
  FlatSeq([i \in 1..Len(g.nodes) |->
     IF states = <<>> THEN <<g.nodes[i].id>>
     ELSE SeqOf(g.nodes[i].id, Len(SelectSeq(states, LAMBDA x : x = g.nodes[i].st)))])

\* do two snapshots differ in nodes, states, edges or weights?  (weights compare by IEEE ==)
Differ(a, b) ==
  \/ NodeIds(a) # NodeIds(b)
  \/ \E id \in NodeIds(a) : StateOf(a, id) # StateOf(b, id)
  \/ EdgeSet(a) # EdgeSet(b)
  \/ \E p \in EdgeSet(a) : FNe(WeightOf(a, p[1], p[2]), WeightOf(b, p[1], p[2]))

GraphInstr == {"GRAPH.ADD", "GRAPH.DUP", "GRAPH.NODE*ADD", "GRAPH.NODE*GETSTATE", "GRAPH.NODE*HISTORY",
               "GRAPH.NODE*SETSTATE", "GRAPH.NODE*NEIGHBORS", "GRAPH.NODE*PREDECESSORS",
               "GRAPH.NODE*SUCCESSORS", "GRAPH.NODE*STATESWITCH", "GRAPH.NODES", "GRAPH.NODES*HISTORY",
               "GRAPH.STACKDEPTH", "GRAPH.PRINT", "GRAPH.PRINT*DIFF", "GRAPH.EDGE*ADD",
               "GRAPH.EDGE*HISTORY", "GRAPH.EDGE*GETWEIGHT", "GRAPH.EDGE*SETWEIGHT"}

SetTop(s, g) == SetF(s, "graph", <<g>> \o Tail(s.graph))
PushGraph(s, g) == IF Len(s.graph) >= s.cfg.graph_cap THEN s ELSE PushOn(s, "graph", g)
PermHole(f) == <<Hole(<<f, 1>>, "perm")>>
SetHole(f)  == <<Hole(<<f, 1>>, "sameset")>>

RECURSIVE Switch(_, _, _, _, _, _)
Switch(g, ids, sw, on, off, i) ==
  IF i > Min2(Len(ids), Len(sw)) THEN g
  ELSE Switch(IF ids[i] >= 0 THEN SetState(g, ids[i], IF sw[i] THEN on ELSE off) ELSE g, ids, sw, on, off, i + 1)

\* queries on the graph at stack position p: states vector popped, result pushed
NodesQuery(s1, g) ==
  IF ~Has(s1, "ivec", 1) THEN Unfired(s1)
  \* the node SET is specified; how often a node is listed when a state is repeated in the selection is not
  ELSE FiredH(SetF(s1, "ivec", <<Filter(g, s1.ivec[1])>> \o Tail(s1.ivec)), SetHole("ivec"))

AdjQuery(s, Q(_, _, _), ordered) ==
  IF s.graph = <<>> THEN Unfired(s)
  ELSE IF ~Has(s, "ivec", 1) THEN Unfired(s)
  ELSE LET s1 == PopN(s, "ivec", 1) IN
       IF ~Has(s, "int", 1) THEN Unfired(s1)
       ELSE LET s2 == PopN(s1, "int", 1) IN
            IF s.int[1] <= 0 THEN Unfired(s2)
            ELSE LET r == Q(s.graph[1], s.int[1], s.ivec[1]) IN
                 IF ordered THEN Fired(PushOn(s2, "ivec", r))
                 ELSE FiredH(PushOn(s2, "ivec", r), PermHole("ivec"))

ApplyGraph(n, s) ==
  LET G == s.graph IN
  CASE n = "GRAPH.ADD" -> Fired(PushGraph(s, EmptyGraph))
    [] n = "GRAPH.DUP" -> IF G = <<>> THEN Unfired(s) ELSE Fired(PushGraph(s, G[1]))
    [] n = "GRAPH.STACKDEPTH" -> Fired(PushOn(s, "int", Len(G)))
    \* new node with the popped state; its process-wide fresh id is pushed
    [] n = "GRAPH.NODE*ADD" -> IF G = <<>> \/ ~Has(s, "int", 1) THEN Unfired(s)
                               ELSE Fired([SetTop(SetF(s, "int", <<s.nid>> \o Tail(s.int)),
                                                  AddNode(G[1], s.nid, s.int[1])) EXCEPT !.nid = @ + 1])
    [] n = "GRAPH.NODE*SETSTATE" -> IF G = <<>> \/ ~Has(s, "int", 1) THEN Unfired(s)
                                    ELSE IF ~Has(s, "int", 2) THEN Unfired(PopN(s, "int", 1))
                                    ELSE LET s2 == PopN(s, "int", 2) IN
                                         IF s.int[2] > 0 /\ HasNode(G[1], s.int[2]) THEN Fired(SetTop(s2, SetState(G[1], s.int[2], s.int[1])))
                                         ELSE Unfired(s2)
    [] n = "GRAPH.NODE*GETSTATE" -> IF G = <<>> \/ ~Has(s, "int", 1) THEN Unfired(s)
                                    ELSE LET s1 == PopN(s, "int", 1) IN
                                         IF s.int[1] > 0 /\ HasNode(G[1], s.int[1])
                                         THEN Fired(PushOn(s1, "int", StateOf(G[1], s.int[1]))) ELSE Unfired(s1)
    \* position popped first (>= 0), then the id; the snapshot at that depth is read
    [] n = "GRAPH.NODE*HISTORY" -> IF ~Has(s, "int", 1) THEN Unfired(s)
                                   ELSE LET s1 == PopN(s, "int", 1) IN
                                        IF s.int[1] < 0 \/ ~Has(s1, "int", 1) THEN Unfired(s1)
                                        ELSE LET s2 == PopN(s1, "int", 1)
                                                 p  == s.int[1]
                                                 id == s.int[2]
                                             IN IF p < Len(G) /\ id >= 0 /\ HasNode(G[p + 1], id)
                                                THEN Fired(PushOn(s2, "int", StateOf(G[p + 1], id)))
                                                ELSE Unfired(s2)
    \* ids vector, switch vector, then two states (on = second, off = top)
    [] n = "GRAPH.NODE*STATESWITCH" ->
         IF G = <<>> \/ ~Has(s, "ivec", 1) THEN Unfired(s)
         ELSE LET s1 == PopN(s, "ivec", 1) IN
              IF ~Has(s, "bvec", 1) THEN Unfired(s1)
              ELSE LET s2 == PopN(s1, "bvec", 1) IN
                   IF ~Has(s, "int", 2) THEN Unfired(s2)
                   ELSE Fired(SetTop(PopN(s2, "int", 2),
                                     Switch(G[1], s.ivec[1], s.bvec[1], s.int[2], s.int[1], 1)))
    [] n = "GRAPH.NODES" -> IF G = <<>> THEN Unfired(s) ELSE NodesQuery(s, G[1])
    [] n = "GRAPH.NODES*HISTORY" -> IF ~Has(s, "int", 1) THEN Unfired(s)
                                    ELSE LET s1 == PopN(s, "int", 1) IN
                                         IF s.int[1] < 0 \/ s.int[1] >= Len(G) THEN Unfired(s1)
                                         ELSE NodesQuery(s1, G[s.int[1] + 1])
    [] n = "GRAPH.NODE*PREDECESSORS" -> AdjQuery(s, Preds, FALSE)
    [] n = "GRAPH.NODE*SUCCESSORS"   -> AdjQuery(s, Succs, FALSE)
    [] n = "GRAPH.NODE*NEIGHBORS"    -> AdjQuery(s, LAMBDA g, id, st : Preds(g, id, st) \o Succs(g, id, st), FALSE)
    \* the textual forms expose hash order: the pushed NAME is specified up to the order of the nodes and
    \* of the destination groups (PushGraphText: TextOK / DiffTextOK, applied by the matcher)
    [] n = "GRAPH.PRINT" -> IF G = <<>> THEN Unfired(s)
                            ELSE FiredH(PushOn(s, "name", ""), <<HoleAB(<<"name", 1>>, "graphtext", G[1], 0)>>)
    \* a diff text is pushed exactly when the two top snapshots differ
    [] n = "GRAPH.PRINT*DIFF" -> IF Len(G) < 2 THEN Unfired(s)
                                 ELSE IF Differ(G[2], G[1])
                                 THEN FiredH(PushOn(s, "name", ""), <<HoleAB(<<"name", 1>>, "difftext", G[2], G[1])>>)
                                 ELSE Unfired(s)
    \* weight popped first, then origin (second) and destination (top)
    [] n = "GRAPH.EDGE*ADD" -> IF G = <<>> \/ ~Has(s, "float", 1) THEN Unfired(s)
                               ELSE LET s1 == PopN(s, "float", 1) IN
                                    IF ~Has(s, "int", 2) THEN Unfired(s1)
                                    ELSE LET g2 == AddEdge(G[1], s.int[2], s.int[1], s.float[1]) IN
                                         \* the guard (both nodes exist, no such edge yet) failed: operands consumed only
                                         Res(SetTop(PopN(s1, "int", 2), g2), g2 # G[1], <<>>)
    [] n = "GRAPH.EDGE*SETWEIGHT" -> IF G = <<>> \/ ~Has(s, "float", 1) THEN Unfired(s)
                                     ELSE LET s1 == PopN(s, "float", 1) IN
                                          IF ~Has(s, "int", 2) THEN Unfired(s1)
                                          ELSE Res(SetTop(PopN(s1, "int", 2), SetWeight(G[1], s.int[2], s.int[1], s.float[1])),
                                                   HasEdge(G[1], s.int[2], s.int[1]), <<>>)
    [] n = "GRAPH.EDGE*GETWEIGHT" -> IF G = <<>> \/ ~Has(s, "int", 2) THEN Unfired(s)
                                     ELSE LET s1 == PopN(s, "int", 2) IN
                                          IF HasEdge(G[1], s.int[2], s.int[1])
                                          THEN Fired(PushOn(s1, "float", WeightOf(G[1], s.int[2], s.int[1])))
                                          ELSE Unfired(s1)
    \* position popped first (>= 0), then origin and destination; the snapshot at that depth is read
    [] n = "GRAPH.EDGE*HISTORY" -> IF ~Has(s, "int", 1) THEN Unfired(s)
                                   ELSE LET s1 == PopN(s, "int", 1)
                                            p  == s.int[1]
                                        IN IF p < 0 \/ p >= Len(G) THEN Unfired(s1)
                                           ELSE IF ~Has(s1, "int", 2) THEN Unfired(s1)
                                           ELSE LET s2 == PopN(s1, "int", 2) IN
                                                IF HasEdge(G[p + 1], s.int[3], s.int[2])
                                                THEN Fired(PushOn(s2, "float", WeightOf(G[p + 1], s.int[3], s.int[2])))
                                                ELSE Unfired(s2)
=============================================================================
