------------------------------ MODULE TraceApi ------------------------------
(***************************************************************************)
(* Trace validation of API-level events: the generic stack container, the  *)
(* ring buffer (against BOTH the implementation-level ring and the         *)
(* abstract bounded sequence), the Graph API, the topology functions, the  *)
(* Item functions and the random generators' contracts.                    *)
(***************************************************************************)
EXTENDS PushISet, Json, IOUtils

Rec == ndJsonDeserialize(IOEnv.TRACE)
VARIABLES l, cur
vars == <<l, cur>>

HasF(r, f) == f \in DOMAIN r
Crashed(e) == HasF(e.post, "crash")
V(v, subj, owner, msg) == [v |-> v, subj |-> subj, owner |-> owner, dev |-> "", fields |-> <<>>, frame |-> <<>>, msg |-> msg]
Ok(subj) == V("ok", subj, "", "")
Expect(cond, subj, owner, msg) == IF cond THEN Ok(subj) ELSE V("mismatch", subj, owner, msg)
\* return values are compared tag first, so that a value of the wrong shape is a mismatch, not an evaluation error
RetEq(a, b) == a.t = b.t /\ a.v = b.v

\* a negative first argument of a positional method encodes a position near usize::MAX (the harness decodes it): it is
\* beyond every length; the offset a failed `replace` reports is then not representable here and left open
PosMethods == {"remove", "get", "get_mut", "copy", "yank", "shove", "pop_vec", "copy_vec", "equal_at", "replace"}
JudgeStack(e, pre) ==
  LET subj == "stack." \o e.act.m
      huge == e.act.m \in PosMethods /\ e.act.args[1] < 0
      args == IF huge THEN [e.act.args EXCEPT ![1] = MaxInt - 4] ELSE e.act.args
  IN
  IF Crashed(e) THEN V("crash", subj, "C16", e.post.msg)
  ELSE LET r == StackOp(e.act.elem, e.act.m, args, pre.s) IN
       \* replace at position usize::MAX - (p - 1) (encoded -p) of n elements reports the offset usize::MAX - (p + n - 2), saturating:
       \* encoded -(p + n - 1), at least -1
       Expect(e.post.s = r.post /\ (IF huge /\ e.act.m = "replace"
                                    THEN e.ret.t = "err" /\ e.ret.v = -Max2((-e.act.args[1]) + Len(pre.s) - 1, 1)
                                    ELSE RetEq(e.ret, r.ret)),
              subj, "C16", "contents or return value differ from the plain sequence")

\* The abstract level decides C17: the live items as the public API shows them (iteration oldest first, indexed
\* access in the buffer's own order) against the bounded sequence.  The implementation-level ring (cursors and
\* cells, read from the Debug output while it still shows them) is judged as extended coverage only: another
\* representation that behaves like the bounded sequence is not a violation of C17.
AbsView(kind, st) ==       \* is the recorded abstract state self-consistent?
  /\ st.size = Len(st.live) /\ Len(st.by_get) = Len(st.live) /\ Len(st.live) <= st.cap
  /\ \A i \in 1..Len(st.live) : st.by_get[i] = IF kind = "stack" THEN st.live[Len(st.live) + 1 - i] ELSE st.live[i]
BagOfInts(str) == IF str = "" THEN <<>> ELSE SplitAt(str, 1, 1, " ")
JudgeBuffer(e, pre) ==
  LET subj == "buffer." \o e.act.m IN
  IF Crashed(e) THEN V("crash", subj, "C17", e.post.msg)
  ELSE LET \* a negative position encodes one near usize::MAX (decoded by the harness): beyond every size
           bargs == IF e.act.m \in {"get", "get_mut", "copy"} /\ e.act.args[1] < 0 THEN <<MaxInt - 4>> ELSE e.act.args
           ab == AbsOp(e.act.kind, pre.cap, e.act.m, bargs, pre.live)
           retOK == IF e.act.m = "to_string"       \* C17: exactly the live items; the order of the text is extended coverage
                    THEN e.ret.t = "val" /\ IsPerm(BagOfInts(e.ret.v), [i \in 1..Len(pre.live) |-> ToString(pre.live[i])])
                    ELSE RetEq(e.ret, ab.ret)
       IN IF ~(e.post.live = ab.post /\ e.post.cap = pre.cap /\ retOK /\ AbsView(e.act.kind, e.post))
          THEN V("mismatch", subj, "C17", "differs from the abstract bounded sequence (live items / return value / size <= capacity)")
          ELSE IF ~RetEq(e.ret, ab.ret) THEN V("mismatch", subj, "EXT", "to_string lists the live items in another order than newest first")
          ELSE IF pre.ring.t = "ring" /\ e.post.ring.t = "ring"
          THEN LET ri == RingOp(e.act.kind, e.act.m, bargs, pre.ring) IN
               IF [x \in DOMAIN ri.post |-> e.post.ring[x]] = ri.post /\ RetEq(e.ret, ri.ret) /\ RingInv(e.post.ring) /\ Live(e.post.ring) = e.post.live
               THEN Ok(subj)
               ELSE V("mismatch", subj, "EXT", "differs from the ring implementation model (cursors / cells)")
          ELSE Ok(subj)

\* Graph API on [gs, nid]: gs[1] the working graph, the rest snapshots (newest first)
SortInts(v) == SortByKeys(v, v)
GraphEqImpl(a, b) ==   \* PartialEq of Graph as implemented: node ids, and origins per destination in list order
  /\ NodeIds(a) = NodeIds(b)
  /\ Len(a.edges) = Len(b.edges)
  /\ \A i \in 1..Len(a.edges) : a.edges[i].d = b.edges[i].d
        /\ [k \in 1..Len(a.edges[i]["in"]) |-> a.edges[i]["in"][k].o] = [k \in 1..Len(b.edges[i]["in"]) |-> b.edges[i]["in"][k].o]
GraphOp(m, a, s) ==
  LET g == s.gs[1]
      set(g2) == [s EXCEPT !.gs[1] = g2]
  IN
  CASE m = "add_node"    -> PR([set(AddNode(g, s.nid, a[1])) EXCEPT !.nid = @ + 1], RVal(s.nid))
    [] m = "remove_node" -> PR(set(RemoveNode(g, a[1])), RUnit)
    [] m = "add_edge"    -> PR(set(AddEdge(g, a[1], a[2], a[3])), RUnit)
    [] m = "remove_edge" -> PR(set(RemoveEdge(g, a[1], a[2])), RUnit)
    [] m = "get_state"   -> PR(s, IF HasNode(g, a[1]) THEN RSome(StateOf(g, a[1])) ELSE RNone)
    [] m = "set_state"   -> PR(set(SetState(g, a[1], a[2])), RUnit)
    [] m = "get_weight"  -> PR(s, IF HasEdge(g, a[1], a[2]) THEN RSome(WeightOf(g, a[1], a[2])) ELSE RNone)
    [] m = "set_weight"  -> PR(set(SetWeight(g, a[1], a[2], a[3])), RUnit)
    [] m = "node_size"   -> PR(s, RVal(Len(g.nodes)))
    [] m = "edge_size"   -> PR(s, RVal(EdgeCount(g)))
    [] m = "filter"      -> PR(s, RVal(SortInts(Filter(g, a[1]))))
    [] m = "clone"       -> PR([s EXCEPT !.gs = <<g, g>> \o Tail(@)], RUnit)
    [] m = "diff"        -> PR(s, IF a[1] < Len(s.gs) THEN RVal(Differ(s.gs[a[1] + 1], g)) ELSE RNone)
    [] m = "diff_rev"    -> PR(s, IF a[1] < Len(s.gs) THEN RVal(Differ(g, s.gs[a[1] + 1])) ELSE RNone)
    [] m = "eq"          -> PR(s, IF a[1] < Len(s.gs) THEN RVal(GraphEqImpl(s.gs[a[1] + 1], g)) ELSE RNone)
    \* the texts are judged by JudgeGraph (TextOK / DiffTextOK): only the shape of the answer is fixed here
    [] m = "to_string"   -> PR(s, RVal(""))
    [] m = "diff_text"   -> PR(s, IF a[1] >= Len(s.gs) THEN RNone ELSE IF Differ(s.gs[a[1] + 1], g) THEN RVal("") ELSE RUnit)
\* `==` on graphs is not part of C18 (it ignores states and weights and looks at list order): extended coverage,
\* and only its necessary condition can be stated on the canonical value: different node or edge sets => FALSE
JudgeGraph(e, pre) ==
  LET subj == "graph." \o e.act.m IN
  IF Crashed(e) THEN V("crash", subj, "C18", e.post.msg)
  ELSE LET r == GraphOp(e.act.m, e.act.args, pre) IN
       IF e.act.m = "eq" THEN
          (IF e.post # r.post \/ e.ret.t # r.ret.t THEN V("mismatch", subj, "C18", "comparing graphs changed them / wrong answer shape")
           ELSE Expect(r.ret.t # "val" \/ r.ret.v \/ ~e.ret.v, subj, "EXT", "== holds for graphs with different node or edge sets"))
       ELSE IF e.act.m \in {"to_string", "diff_text"} /\ e.post = r.post /\ e.ret.t = r.ret.t /\ r.ret.t = "val"
       \* the diff is non-empty exactly when the snapshots differ (C18, decided above by the answer's shape); what the
       \* texts say is extended coverage
       THEN Expect(IF e.act.m = "to_string" THEN TextOK(e.ret.v, pre.gs[1])
                   ELSE DiffTextOK(e.ret.v, pre.gs[e.act.args[1] + 1], pre.gs[1]),
                   subj, "EXT", "the text does not list exactly the nodes / edges / changes of the model (lines, counts)")
       ELSE IF e.act.m = "filter"       \* the node SET is specified (how often a node is listed for a repeated state is not)
       THEN Expect(e.post = r.post /\ e.ret.t = "val" /\ Range(e.ret.v) = Range(r.ret.v), subj, "C18", "the state filter does not return the model's node set")
       ELSE IF ~(e.post = r.post /\ RetEq(e.ret, r.ret)) THEN V("mismatch", subj, "C18", "graphs or return value differ from the model")
       ELSE Expect(\A i \in 1..Len(e.post.gs) : GraphInv(e.post.gs[i]), subj, "C18", "structural invariant G1/G2 broken")

\* topology functions
ISqrtUpTo(n) == CHOOSE k \in 0..46340 : k * k <= n /\ (k + 1) * (k + 1) > n
RECURSIVE DivTimes(_, _, _)
DivTimes(i, edge, k) == IF k = 0 \/ i = 0 THEN i ELSE DivTimes(i \div edge, edge, k - 1)
JudgeTopo(e) ==
  LET subj == "topo." \o e.act.m
      a == e.act.args
  IN IF Crashed(e) THEN V("crash", subj, "C20", e.post.msg)
  ELSE CASE e.act.m = "find_neighbors" ->
         LET r == a[4]
             \* a negative dimension count encodes a huge one (near usize::MAX, or a multiple of 2^32; decoded by the harness)
             nd == IF a[2] < 0 THEN MaxInt ELSE a[2]
         IN
         IF a[3] = a[1] THEN Ok(subj)       \* a centre one past the end addresses no element: nothing is specified
         ELSE IF FLt(r, FPosZero) \/ nd < 1 \/ a[1] < 1 \/ a[3] > a[1] \/ (nd >= 65 /\ a[1] >= 2)
         THEN Expect(RetEq(e.ret, RNone), subj, "C20", "invalid arguments must yield no neighbourhood")
         ELSE LET nb == Neighbors(a[1], nd, a[3], r) IN
              Expect(e.ret.t = "some" /\ ClassOK([c |-> "between", a |-> nb.lo, b |-> nb.hi], e.ret.v, <<>>),
                     subj, "C20", "neighbourhood differs from the Euclidean ball on the smallest enclosing hypercube")
       \* ("a bijection on the hypercube": an index beyond the last cell of the cube addresses nothing - unjudged)
       [] e.act.m = "decompose_index" ->
         IF a[2] < 1 \/ DivTimes(a[1], a[2], a[3]) # 0 THEN Ok(subj)
         ELSE Expect(RetEq(e.ret, RSome(Decompose(a[1], a[2], a[3]))), subj, "C20", "coordinates differ")
       [] e.act.m = "euclidean_distance" ->
         IF Len(a[1]) # Len(a[2]) THEN Expect(RetEq(e.ret, RNone), subj, "C20", "length mismatch must yield None")
         ELSE LET d2 == Dist2(a[1], a[2])
                  rt == ISqrtUpTo(d2)
              IN Expect(e.ret.t = "some" /\ (rt * rt = d2 => e.ret.v = FFromInt(rt)), subj, "C20", "distance differs")

\* Item functions
JudgeItem(e) ==
  LET subj == "item." \o e.act.m
      a == e.act.args
      m == e.act.m
      own == IF m = "find" THEN "C19" ELSE IF m = "contains" /\ Len(e.act.args) > 2 /\ e.act.args[3] # 0 THEN "EXT" ELSE "C08"    \* (no instruction starts a search elsewhere than at 0)       \* (find is the helper of LIST.BVAL / IVAL / FVAL: "the n-th value of the requested type")
  IN IF Crashed(e) THEN V("crash", subj, own, e.post.msg)
  ELSE Expect(
       CASE m = "size" -> RetEq(e.ret, RVal(Size(a[1])))
         [] m = "shallow_size" -> RetEq(e.ret, RVal(IF a[1].k = "list" THEN Len(a[1].v) + 1 ELSE 1))
         [] m = "traverse" -> RetEq(e.ret, IF a[2] < Size(a[1]) THEN RSome(Extract(a[1], a[2])) ELSE RNone)
         [] m = "insert" -> RetEq(e.ret, IF a[3] < Size(a[1]) THEN RSome(InsertPt(a[1], a[2], a[3])) ELSE [t |-> "none", v |-> a[1]])
         \* (with a start index k the answer is k + a position: the sub-tree sits at index k of a bigger tree)
         [] m = "contains" -> LET k == IF Len(a) > 2 THEN a[3] ELSE 0 IN
                              StructFuzzy(a[1]) \/ StructFuzzy(a[2]) \/ (Position(a[1], a[2]) = -1 /\ RetEq(e.ret, RVal(-1))) \/
                              (e.ret.t = "val" /\ \E j \in 1..Len(AllPositions(a[1], a[2])) : AllPositions(a[1], a[2])[j] + k = e.ret.v)
         [] m = "container" -> StructFuzzy(a[1]) \/ StructFuzzy(a[2]) \/
                               (LET c == ContainerOf(a[1], a[2]) IN RetEq(e.ret, IF c.found THEN RSome(c.item) ELSE RNone))
         [] m = "substitute" -> StructFuzzy(a[1]) \/ StructFuzzy(a[2]) \/ RetEq(e.ret, RVal(Subst(a[1], a[2], a[3])))
         [] m = "equals" -> StructFuzzy(a[1]) \/ StructFuzzy(a[2]) \/ RetEq(e.ret, RVal(DeepEq(a[1], a[2])))
         [] m = "shallow_eq" -> RetEq(e.ret, RVal(ShallowEq(a[1], a[2])))
         \* the n-th point of the pattern's kind in depth-first order (the item itself first), counting on from a[3]
         [] m = "find" -> LET ms == SelectPoints(a[1], LAMBDA p : ShallowEq(p, a[2])) IN
                          IF a[4] >= a[3] /\ a[4] - a[3] < Len(ms) THEN e.ret.t = "ok" /\ e.ret.v = ms[a[4] - a[3] + 1]
                          ELSE e.ret.t = "err"        \* (what the Err carries - the count reached today - is not documented)
         [] m = "to_string" -> Fuzzy(a[1]) \/ RetEq(e.ret, RVal(PrintItem(a[1])))
         [] OTHER -> FALSE,
       subj, own, "Item function differs from the depth-first point algebra")

\* random generators: contracts (C12, C13)
ValidLeaf(p, instrs) ==
  \/ p.k \in {"list", "bool", "int", "id"}
  \/ (p.k = "ins" /\ (IF instrs = <<>> THEN p.v = "NOOP" ELSE \E i \in 1..Len(instrs) : instrs[i] = p.v))
  \/ (p.k = "float" /\ ~FIsNaN(p.v) /\ ~FLt(p.v, FPosZero) /\ FLt(p.v, FOne))
ValidCode(it, instrs) == \A i \in 1..Len(Points(it)) : ValidLeaf(Points(it)[i], instrs)
\* name leaves: a currently bound name whenever new names cannot be drawn and some name is bound
NamesOK(it, bound, pzero) ==
  ~pzero \/ bound = <<>> \/ \A i \in 1..Len(Points(it)) :
     Points(it)[i].k = "id" => \E j \in 1..Len(bound) : bound[j] = Points(it)[i].v
TrueCountOK(v, n, sp) ==
  LET cnt == Cardinality({i \in 1..Len(v) : v[i]})
      t   == FloorScaled(sp, 16)
      slack == 65536 + 330 * n
  IN cnt * 65536 >= t * n - slack /\ cnt * 65536 <= (t + 1) * n + slack
\* sparsities 1/4, 1/2, 3/4 survive the rounding to whole percent unchanged and their products with the length are exact:
\* the README's "(sparsity * n) true values", up to the rounding of a fractional product
QuarterCountOK(cnt, n, sp) ==
  LET q == CASE sp = 1048576000 -> 1 [] sp = 1056964608 -> 2 [] sp = 1061158912 -> 3 [] OTHER -> 0      \* bits of 0.25, 0.5, 0.75
  IN q > 0 /\ 4 * cnt - n * q > -4 /\ 4 * cnt - n * q < 4
JudgeGen(e) ==
  LET m == e.act.m
      a == e.act.args
      subj == "gen." \o m
      own == IF m \in {"random_code", "random_code_with_size", "decompose", "code_rand_instr"} THEN "C12" ELSE "C13"
  IN IF Crashed(e) THEN V("crash", subj, own, e.post.msg)
  ELSE Expect(
       \* CODE.RAND handed the list a[1], with a limit a[2] inside the configured maximum: what it leaves on CODE has between 1 and
       \* limit points (whether the limit itself is an admissible size is left open, as for the step: hole class "randcode"),
       \* nothing for a limit of 0, nothing or one leaf for a limit of 1
       CASE m = "code_rand_instr" ->
              IF a[2] = 0 THEN RetEq(e.ret, RNone)
              ELSE (a[2] = 1 /\ RetEq(e.ret, RNone))
                   \/ (e.ret.t = "some" /\ Size(e.ret.v) >= 1 /\ Size(e.ret.v) <= a[2] /\ ValidCode(e.ret.v, a[1]) /\ NamesOK(e.ret.v, a[3], a[4]))
         [] m = "random_code" ->
              IF a[2] < 2 THEN RetEq(e.ret, RNone)
              ELSE e.ret.t = "some" /\ Size(e.ret.v) >= 1 /\ Size(e.ret.v) <= a[2] - 1 /\ ValidCode(e.ret.v, a[1])
                   /\ NamesOK(e.ret.v, a[3], a[4])
         [] m = "random_code_with_size" -> e.ret.t = "some" /\ Size(e.ret.v) = a[2] /\ ValidCode(e.ret.v, a[1])
                                           /\ NamesOK(e.ret.v, a[3], a[4])
         [] m = "decompose" -> e.ret.t = "some" /\ SumSeq(e.ret.v) = a[1] /\ \A i \in 1..Len(e.ret.v) : e.ret.v[i] >= 1
         [] m = "random_bool_vector" ->
              IF a[1] < 0 \/ FIsNaN(a[2]) \/ FLt(a[2], FPosZero) \/ FGt(a[2], FOne) THEN RetEq(e.ret, RNone)
              ELSE e.ret.t = "some" /\ Len(e.ret.v) = a[1] /\ TrueCountOK(e.ret.v, a[1], a[2])
         \* only the length and the number of TRUE bits are reported (vectors of millions of bits; sparsity a quarter multiple)
         [] m = "random_bool_vector_count" ->
              IF a[1] < 0 THEN RetEq(e.ret, RNone)
              ELSE e.ret.t = "some" /\ e.ret.v.len = a[1] /\ QuarterCountOK(e.ret.v.trues, a[1], a[2])
         [] m = "random_int_vector" ->
              IF a[1] < 0 \/ a[3] <= a[2] THEN RetEq(e.ret, RNone)
              ELSE e.ret.t = "some" /\ Len(e.ret.v) = a[1] /\ \A i \in 1..Len(e.ret.v) : e.ret.v[i] >= a[2] /\ e.ret.v[i] < a[3]
         [] m = "random_float_vector" ->
              IF a[1] < 0 \/ ~FIsFinite(a[3]) \/ FLt(a[3], FPosZero) THEN RetEq(e.ret, RNone)
              ELSE e.ret.t = "some" /\ Len(e.ret.v) = a[1]
                   /\ (FIsZero(a[3]) /\ FIsFinite(a[2]) => \A i \in 1..Len(e.ret.v) : FEq(e.ret.v[i], a[2]))
         \* args <<min, max>> mirror the configuration of the state the call ran in
         [] m = "random_integer" -> IF a[1] < a[2] THEN e.ret.t = "some" /\ e.ret.v >= a[1] /\ e.ret.v < a[2] ELSE RetEq(e.ret, RNone)
         \* an infinite bound admits no uniform value: nothing (or a value inside the interval), never a crash
         [] m = "random_float" -> IF FLt(a[1], a[2]) /\ FIsFinite(a[1]) /\ FIsFinite(a[2]) THEN e.ret.t = "some" /\ ~FLt(e.ret.v, a[1]) /\ FLt(e.ret.v, a[2])
                                  ELSE IF FLt(a[1], a[2]) THEN RetEq(e.ret, RNone) \/ (e.ret.t = "some" /\ ~FLt(e.ret.v, a[1]) /\ FLt(e.ret.v, a[2]))
                                  ELSE RetEq(e.ret, RNone)
         [] m = "random_float_many" -> \A i \in 1..Len(e.ret.v) : ~FLt(e.ret.v[i], a[1]) /\ FLt(e.ret.v[i], a[2])
         \* min is produced, max never (the number of draws makes a miss of min less likely than 1e-12)
         [] m = "random_integer_stats" -> IF a[1] < a[2] THEN e.ret.v.count = a[3] /\ e.ret.v.min = a[1] /\ e.ret.v.max = a[2] - 1
                                          ELSE e.ret.v.count = 0
         [] m = "random_int_vector_stats" -> IF a[1] < 0 \/ a[3] <= a[2] THEN e.ret.v.count = 0
                                             ELSE e.ret.v.badlen = 0 /\ (e.ret.v.count > 0 => e.ret.v.min = a[2] /\ e.ret.v.max = a[3] - 1)
         \* every position is able to become TRUE; the TRUE count is constant for fixed parameters
         [] m = "random_bool_vector_cover" ->
              IF a[1] < 0 \/ FIsNaN(a[2]) \/ FLt(a[2], FPosZero) \/ FGt(a[2], FOne) THEN e.ret.v.nones = a[3]
              ELSE /\ e.ret.v.nones = 0 /\ e.ret.v.cmin = e.ret.v.cmax
                   /\ (e.ret.v.cmax > 0 /\ e.ret.v.cmax < a[1] => \A i \in 1..Len(e.ret.v.ever) : e.ret.v.ever[i])
         \* args <<bound names>>
         [] m = "existing_random_name" -> e.ret.t = "some" /\ (a[1] # <<>> => \E j \in 1..Len(a[1]) : a[1][j] = e.ret.v)
         [] m = "new_random_name" -> e.ret.t = "some" /\ Len(e.ret.v) > 0
         [] OTHER -> FALSE,
       subj, own, "generator result violates its documented contract")

\* C14: all runs of one program (other runs before it, other threads beside it, other build
\* profile) end in the same state after the same number of steps
JudgeDet(e) ==
  LET rs == SelectSeq(e.runs, LAMBDA r : ~HasF(r, "envelope")) IN
  IF rs = <<>> THEN Ok("det")
  ELSE IF \E i \in 1..Len(rs) : HasF(rs[i], "crash") # HasF(rs[1], "crash")
       THEN V("mismatch", "det", "C14", "the program crashed in some runs only")
  ELSE IF HasF(rs[1], "crash") THEN Ok("det")
  ELSE Expect(\A i \in 1..Len(rs) : rs[i].steps = rs[1].steps /\ rs[i].final = rs[1].final, "det", "C14",
              "final states of repeated / concurrent / cross-profile runs differ")
\* C14: node ids are never handed out twice, increase per thread, and exceed every earlier id
MaxOfSeq(s) == CHOOSE x \in Range(s) : \A y \in Range(s) : y <= x
MinOfSeq(s) == CHOOSE x \in Range(s) : \A y \in Range(s) : x <= y
\* the per-thread lists are increasing, so the extremes are among their first / last elements
NonEmptyLists(e) == SelectSeq(e.ids, LAMBDA s : s # <<>>)
IdsMin(e) == MinOfSeq([t \in 1..Len(NonEmptyLists(e)) |-> NonEmptyLists(e)[t][1]])
IdsMax(e) == MaxOfSeq([t \in 1..Len(NonEmptyLists(e)) |-> Last(NonEmptyLists(e)[t])])
JudgeIds(e, pre) ==
  LET all == FlatSeq(e.ids)
      prevmax == IF HasF(pre, "maxid") THEN pre.maxid ELSE 0
  IN IF all = <<>> THEN Ok("ids")
     ELSE Expect(/\ \A t \in 1..Len(e.ids) : \A i \in 1..(Len(e.ids[t]) - 1) : e.ids[t][i] < e.ids[t][i + 1]
                 /\ Cardinality(Range(all)) = Len(all)
                 /\ IdsMin(e) > prevmax,
                 "ids", "C14", "a graph node identifier was handed out twice (or not monotonically)")
\* the first steps (up to the driver's cap) must agree; a program that ends within the cap must end on both sides
JudgeCli(e) ==
  IF ~e.lib_done \/ e.cut THEN Expect((Len(e.cli) <= Len(e.lib) /\ e.cli = SubSeq(e.lib, 1, Len(e.cli))) \/ (Len(e.lib) <= Len(e.cli) /\ e.lib = SubSeq(e.cli, 1, Len(e.lib))), "cli", "C14",
                             "the command-line front end and the library disagree on the stacks of some step (diverging program)")
  ELSE Expect(e.cli = e.lib /\ e.done, "cli", "C14", "the command-line front end and the library disagree on the stacks of some step")

\* the instruction-set object: `pre` is the MODEL state carried from event to event (the tags are not observable),
\* the recorded post-state contributes the observable part (the names)
ISModel(pre) == IF HasF(pre, "tag") THEN pre ELSE [names |-> Range(pre.names), tag |-> <<>>]
JudgeISet(e, pre) ==
  IF Crashed(e) THEN V("crash", "iset." \o e.act.m, "EXT", e.post.msg)
  ELSE LET r == ISOp(e.act.m, e.act.args, ISModel(pre)) IN
       Expect(RetEq(e.ret, r.ret) /\ Range(e.post.names) = r.post.names /\ Len(e.post.names) = Cardinality(r.post.names),
              "iset." \o e.act.m, "EXT", "instruction set: names or answer differ from the model")

Judge(e, pre) ==
  CASE e.act.a = "stack"  -> JudgeStack(e, pre)
    [] e.act.a = "iset"   -> JudgeISet(e, pre)
    [] e.act.a = "det"    -> JudgeDet(e)
    [] e.act.a = "ids"    -> JudgeIds(e, pre)
    [] e.act.a = "cli"    -> JudgeCli(e)
    [] e.act.a = "buffer" -> JudgeBuffer(e, pre)
    [] e.act.a = "graph"  -> JudgeGraph(e, pre)
    [] e.act.a = "topo"   -> JudgeTopo(e)
    [] e.act.a = "item"   -> JudgeItem(e)
    [] e.act.a = "gen"    -> JudgeGen(e)
    [] OTHER -> V("unknown-act", e.act.a, "", "")

Init == l = 1 /\ cur = <<>>
Consume ==
  /\ l <= Len(Rec)
  /\ LET e   == Rec[l]
         pre == IF HasF(e, "pre") THEN e.pre ELSE cur
         j   == Judge(e, pre)
     IN /\ (j.v # "ok" => PrintT("EV " \o ToJson([l |-> l, id |-> e.id, i |-> e.i, j |-> j])))
        /\ cur' = IF Crashed(e) THEN <<>>
                  ELSE IF e.act.a = "ids" THEN [maxid |-> IF NonEmptyLists(e) = <<>> THEN 0 ELSE IdsMax(e)]
                  ELSE IF e.act.a = "iset" THEN ISOp(e.act.m, e.act.args, ISModel(pre)).post
                  ELSE e.post
  /\ l' = l + 1
Finish == l = Len(Rec) + 1 /\ PrintT("DONE " \o ToString(Len(Rec))) /\ l' = l + 1 /\ UNCHANGED cur
Next == Consume \/ Finish
Spec == Init /\ [][Next]_vars
=============================================================================
