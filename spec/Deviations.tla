----------------------------- MODULE Deviations -----------------------------
(***************************************************************************)
(* Known findings: places where today's pushr departs from its documented  *)
(* behaviour and no small safe repair exists (an existing unit test pins   *)
(* the behaviour, or the repair needs a design decision).  Each deviation  *)
(* is a NAMED action that pins the exact wrong behaviour for the exact     *)
(* class of inputs, so that any OTHER misbehaviour of the same instruction *)
(* is still reported as a violation.  The ids must agree with              *)
(* /verif/known_findings.json.                                             *)
(***************************************************************************)
EXTENDS PushFootprint

Dev(id, res)   == [id |-> id, crash |-> FALSE, res |-> res]
DevCrash(id)   == [id |-> id, crash |-> TRUE, res |-> Fired(EmptyState)]

\* deviations of instruction n applied to state s (s.exec no longer holds n)
DevApply(n, s) ==
  \* F-BOOLFROMFLOAT / F-BOOLFROMINT: TRUE is pushed for zero, FALSE otherwise (documented: the
  \* converse); pinned by boolean::tests::boolean_from_{float,integer}_compares_to_zero
  IF n = "BOOLEAN.FROMFLOAT" /\ Has(s, "float", 1)
  THEN <<Dev("F-BOOLFROMFLOAT", Fired(PushOn(s, "bool", FEq(s.float[1], FPosZero))))>>
  ELSE IF n = "BOOLEAN.FROMINTEGER" /\ Has(s, "int", 1)
  THEN <<Dev("F-BOOLFROMINT", Fired(PushOn(s, "bool", s.int[1] = 0)))>>
  \* F-INTMOD: truncated remainder (sign of the dividend) instead of the documented floored modulo;
  \* pinned by integer::tests::integer_modulus_pushes_result (-13 % 10 = -3)
  ELSE IF n = "INTEGER.%" /\ Has(s, "int", 2) /\ s.int[1] # 0 /\ DivFits(s.int[2], s.int[1])
  THEN <<Dev("F-INTMOD", Fired(PushOn(PopN(s, "int", 2), "int", TruncRem(s.int[2], s.int[1]))))>>
  \* F-CODELOOP: CODE.LOOP re-arms itself without re-quoting its body, so the re-armed CODE.LOOP
  \* pops whatever is on the CODE stack; pinned by code::tests::code_loop_pushes_body_and_updated_loop
  ELSE IF n = "CODE.LOOP" /\ Has(s, "code", 1) /\ Has(s, "index", 1) /\ s.index[1].cur < s.index[1].dst
  THEN <<Dev("F-CODELOOP", Fired(SetF(PopN(s, "code", 1), "exec",
            <<s.code[1], IList(<<IIns("INDEX.INCREASE"), IIns("CODE.LOOP"), s.code[1]>>)>> \o s.exec)))>>
  \* F-CODEINSERT-RANGE: an index outside 0..Size-1 is not normalised as documented ("as in
  \* CODE.EXTRACT") but ignored; pinned by code::tests::code_insert_does_nothing_when_index_too_big
  ELSE IF n = "CODE.INSERT" /\ Has(s, "int", 1) /\ Has(s, "code", 2)
          /\ (s.int[1] < 0 \/ s.int[1] >= Size(s.code[1]))
  THEN <<Dev("F-CODEINSERT-RANGE", Fired(PopN(s, "int", 1)))>>
  ELSE <<>>

\* deviations of one interpreter step
DevStep(s) ==
  IF StepKind(s) = "instr" THEN DevApply(s.exec[1].v, PopN(s, "exec", 1)) ELSE <<>>
DeviationIds == {"F-BOOLFROMFLOAT", "F-BOOLFROMINT", "F-INTMOD", "F-CODELOOP", "F-CODEINSERT-RANGE"}
=============================================================================
