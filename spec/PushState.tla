------------------------------ MODULE PushState ------------------------------
(***************************************************************************)
(* The abstract interpreter state and the shape of a transition result.    *)
(*                                                                         *)
(* st = [ exec, code  : Seq(Item)          (element 1 = top)               *)
(*        int : Seq(Int32), float : Seq(F32 bits), bool : Seq(BOOLEAN),    *)
(*        name : Seq(STRING), bvec, ivec, fvec : Seq(Seq(..)),             *)
(*        index : Seq([cur, dst]),                                         *)
(*        graph : Seq(Graph)  (element 1 = newest = GRAPH stack top),      *)
(*        input, output : Seq([h, b]) (element 1 = oldest message),        *)
(*        bind : [names -> Item], quote, send : BOOLEAN,                   *)
(*        nid : next graph node id (process-wide counter), cfg : record ]  *)
(*                                                                         *)
(* A result is [post, fired, holes]: `post` the successor state, `fired`   *)
(* whether the instruction found all its operands and guards, `holes` a    *)
(* sequence of positions of `post` whose value the specification leaves    *)
(* open ("any in-type value"), each with a class the value must be in.     *)
(***************************************************************************)
EXTENDS PushItem

SeqFields  == {"exec", "code", "int", "float", "bool", "name", "bvec", "ivec", "fvec", "index",
               "graph", "input", "output"}
FlatFields == {"bind", "quote", "send", "cfg", "nid"}
AllFields  == SeqFields \cup FlatFields
\* the nine stacks whose depths the run loop's growth check adds up
SizedFields == {"bool", "float", "int", "name", "code", "exec", "bvec", "fvec", "ivec"}

\* default capacities of the INPUT / OUTPUT queues and of the GRAPH stack; the capacities in force are part of the
\* configuration (a host may install queues of another capacity: in_cap, out_cap, graph_cap)
InputCap  == 10
OutputCap == 3
GraphCap  == 100

DefaultCfg == [max_f |-> FOne, min_f |-> FNeg(FOne), max_i |-> 10, min_i |-> -10,
               push_limit |-> 1000, time_limit |-> 5000, growth_cap |-> 500,
               new_name_p |-> 981668463, max_rand_points |-> 25, max_prog_points |-> 100,
               in_cap |-> InputCap, out_cap |-> OutputCap, graph_cap |-> GraphCap]

EmptyState == [exec |-> <<>>, code |-> <<>>, int |-> <<>>, float |-> <<>>, bool |-> <<>>,
               name |-> <<>>, bvec |-> <<>>, ivec |-> <<>>, fvec |-> <<>>, index |-> <<>>,
               graph |-> <<>>, input |-> <<>>, output |-> <<>>, bind |-> <<>>,
               quote |-> FALSE, send |-> FALSE, nid |-> 1, cfg |-> DefaultCfg]

Has(s, f, n)     == Len(s[f]) >= n
PopN(s, f, n)    == [s EXCEPT ![f] = Drop(@, n)]
PushOn(s, f, x)  == [s EXCEPT ![f] = <<x>> \o @]
SetF(s, f, v)    == [s EXCEPT ![f] = v]
StateSize(s)     == Len(s.bool) + Len(s.float) + Len(s.int) + Len(s.name) + Len(s.code)
                    + Len(s.exec) + Len(s.bvec) + Len(s.fvec) + Len(s.ivec)

Hole(path, class)      == [p |-> path, c |-> class, a |-> 0, b |-> 0]
HoleAB(path, class, a, b) == [p |-> path, c |-> class, a |-> a, b |-> b]
Res(post, fired, holes) == [post |-> post, fired |-> fired, holes |-> holes]
Fired(p)    == Res(p, TRUE, <<>>)
Unfired(p)  == Res(p, FALSE, <<>>)
FiredH(p, holes) == Res(p, TRUE, holes)

\* push an INTEGER result that may be unrepresentable: fv = <<fits, value>>
PushIntRes(s, fv) ==
  IF fv[1] THEN Fired(PushOn(s, "int", fv[2]))
  ELSE FiredH(PushOn(s, "int", 0), <<Hole(<<"int", 1>>, "int")>>)
\* push a FLOAT result record of PushBase (exact bits / some NaN / left open)
PushFloatRes(s, r) ==
  IF r.t = "v" THEN Fired(PushOn(s, "float", r.b))
  ELSE IF r.t = "nan" THEN FiredH(PushOn(s, "float", FQNaN), <<Hole(<<"float", 1>>, "nan")>>)
  ELSE FiredH(PushOn(s, "float", 0), <<Hole(<<"float", 1>>, "float")>>)

=============================================================================
