------------------------------ MODULE PushConc ------------------------------
(***************************************************************************)
(* Concurrency model of property C14: T threads, each creating K graph     *)
(* nodes.  A node id is handed out by ONE atomic fetch-and-add on the      *)
(* process-wide counter (Atomic = TRUE).  With Atomic = FALSE the counter  *)
(* is read and written in two separate steps (what a non-atomic counter    *)
(* would do): that configuration must VIOLATE UniqueIds and is kept as an  *)
(* expected-counterexample regression of the model's sensitivity.          *)
(* Interpreter instances own disjoint state: a step of one instance leaves *)
(* every other instance unchanged (NonInterference).                       *)
(***************************************************************************)
EXTENDS Integers, Sequences, FiniteSets, TLC
CONSTANTS T, K, Atomic
VARIABLES counter, pc, tmp, ids, local
vars == <<counter, pc, tmp, ids, local>>
Threads == 1..T

Init == /\ counter = 1
        /\ pc = [t \in Threads |-> "idle"]
        /\ tmp = [t \in Threads |-> 0]
        /\ ids = [t \in Threads |-> <<>>]
        /\ local = [t \in Threads |-> 0]          \* abstract private state of the thread's interpreter

\* node creation with an atomic fetch_add
NodeNewAtomic(t) ==
  /\ Atomic /\ pc[t] = "idle" /\ Len(ids[t]) < K
  /\ ids' = [ids EXCEPT ![t] = Append(@, counter)]
  /\ counter' = counter + 1
  /\ UNCHANGED <<pc, tmp, local>>
\* node creation with a separate load and store
Load(t) == /\ ~Atomic /\ pc[t] = "idle" /\ Len(ids[t]) < K
           /\ tmp' = [tmp EXCEPT ![t] = counter] /\ pc' = [pc EXCEPT ![t] = "loaded"]
           /\ UNCHANGED <<counter, ids, local>>
Store(t) == /\ ~Atomic /\ pc[t] = "loaded"
            /\ counter' = tmp[t] + 1 /\ ids' = [ids EXCEPT ![t] = Append(@, tmp[t])]
            /\ pc' = [pc EXCEPT ![t] = "idle"]
            /\ UNCHANGED <<tmp, local>>
\* a step of thread t's interpreter on its own state
LocalStep(t) == /\ local[t] < 2 /\ local' = [local EXCEPT ![t] = @ + 1]
                /\ UNCHANGED <<counter, pc, tmp, ids>>
Next == \E t \in Threads : NodeNewAtomic(t) \/ Load(t) \/ Store(t) \/ LocalStep(t)
Spec == Init /\ [][Next]_vars

AllIds == UNION {{ids[t][i] : i \in 1..Len(ids[t])} : t \in Threads}
\* no id is handed out twice (proved for any T and K in PushConcProof.tla)
UniqueIds == \A t, u \in Threads : \A i \in 1..Len(ids[t]) : \A j \in 1..Len(ids[u]) :
                (t # u \/ i # j) => ids[t][i] # ids[u][j]
IncreasingPerThread == \A t \in Threads : \A i \in 1..(Len(ids[t]) - 1) : ids[t][i] < ids[t][i + 1]
NonInterference == [][\A t \in Threads : local'[t] # local[t] => \A u \in Threads \ {t} : local'[u] = local[u]]_vars
=============================================================================
