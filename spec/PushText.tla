------------------------------- MODULE PushText ------------------------------
(***************************************************************************)
(* The textual rendering of a whole interpreter state (`Display for        *)
(* PushState`, used for logging and by front ends), as a function of the   *)
(* abstract state:                                                         *)
(*   - twelve sections in a fixed order, each a header line and one line   *)
(*     with the stack, top first, blank separated, trimmed;                *)
(*   - FLOAT stack elements with ONE decimal ("{:.1}"), floats inside      *)
(*     items and vectors with three (PushItem.PrintFloat);                 *)
(*   - INDEX entries as current/destination;                               *)
(*   - the name bindings sorted by name (byte order), "name => item".      *)
(* Graphs print in hash order (PushGraphText); with a non-empty GRAPH      *)
(* stack only the text before and after the GRAPH section is specified.   *)
(* Not part of any listed property: extended coverage (plan EXT).          *)
(***************************************************************************)
EXTENDS PushParser

\* ---- Rust's str::trim (Unicode White_Space; the non-ASCII members are supplied as WS)
RECURSIVE FirstNonWS(_, _, _)
FirstNonWS(s, i, WS) == IF i > Len(s) THEN i ELSE IF Ch(s, i) \in WS THEN FirstNonWS(s, i + 1, WS) ELSE i
RECURSIVE LastNonWS(_, _, _)
LastNonWS(s, i, WS) == IF i < 1 THEN 0 ELSE IF Ch(s, i) \in WS THEN LastNonWS(s, i - 1, WS) ELSE i
Trim(s, WS) == LET a == FirstNonWS(s, 1, WS)  b == LastNonWS(s, Len(s), WS) IN IF a > b THEN "" ELSE SubSeq(s, a, b)

\* ---- byte order of strings, decided for printable ASCII
Ascii == " !\"#$%&'()*+,-./0123456789:;<=>?@ABCDEFGHIJKLMNOPQRSTUVWXYZ[\\]^_`abcdefghijklmnopqrstuvwxyz{|}~"
IsAscii(c) == \E i \in 1..Len(Ascii) : Ch(Ascii, i) = c
Rank(c) == CHOOSE i \in 1..Len(Ascii) : Ch(Ascii, i) = c
AllAscii(s) == \A i \in 1..Len(s) : IsAscii(Ch(s, i))
RECURSIVE StrLess(_, _, _)
StrLess(a, b, i) ==          \* a < b, both printable ASCII
  IF i > Len(a) THEN i <= Len(b)
  ELSE IF i > Len(b) THEN FALSE
  ELSE IF Ch(a, i) = Ch(b, i) THEN StrLess(a, b, i + 1)
  ELSE Rank(Ch(a, i)) < Rank(Ch(b, i))
\* the keys of a binding table in byte order (insertion sort over the set)
RECURSIVE SortKeys(_)
SortKeys(S) == IF S = {} THEN <<>>
               ELSE LET m == CHOOSE x \in S : \A y \in S \ {x} : StrLess(x, y, 1) IN <<m>> \o SortKeys(S \ {m})

\* ---- sections
StackLine(strs, WS) == Trim(JoinStr(strs, " "), WS)
IndexStr(ix) == ToString(ix.cur) \o "/" \o ToString(ix.dst)
VecStr(t) == PrintItem(t)
Items(stk) == [i \in 1..Len(stk) |-> PrintItem(stk[i])]
BindText(bind) ==
  LET ks == SortKeys(DOMAIN bind) IN
  JoinStr([i \in 1..Len(ks) |-> ks[i] \o " => " \o PrintItem(bind[ks[i]]) \o "\n "], "")
BeforeGraph(s, WS) ==
  "> BOOL  : \n" \o StackLine([i \in 1..Len(s.bool) |-> BoolStr(s.bool[i])], WS) \o
  "\n> CODE  : \n" \o StackLine(Items(s.code), WS) \o
  "\n> EXEC  : \n" \o StackLine(Items(s.exec), WS) \o
  "\n> FLOAT : \n" \o StackLine([i \in 1..Len(s.float) |-> FixedFloat(s.float[i], 1)], WS) \o
  "\n> GRAPH : \n"
AfterGraph(s, WS) ==
  "\n> INDEX : \n" \o StackLine([i \in 1..Len(s.index) |-> IndexStr(s.index[i])], WS) \o
  "\n> INT   : \n" \o StackLine([i \in 1..Len(s.int) |-> ToString(s.int[i])], WS) \o
  "\n> BVEC  : \n" \o StackLine([i \in 1..Len(s.bvec) |-> VecStr([k |-> "bvec", v |-> s.bvec[i]])], WS) \o
  "\n> FVEC  : \n" \o StackLine([i \in 1..Len(s.fvec) |-> VecStr([k |-> "fvec", v |-> s.fvec[i]])], WS) \o
  "\n> IVEC  : \n" \o StackLine([i \in 1..Len(s.ivec) |-> VecStr([k |-> "ivec", v |-> s.ivec[i]])], WS) \o
  "\n> NAME  : \n" \o StackLine(s.name, WS) \o
  "\n> IDS   : \n" \o BindText(s.bind) \o "\n"

\* what of the state the text specification covers exactly
TextDecidable(s) ==
  /\ \A i \in 1..Len(s.code) : ~Fuzzy(s.code[i])
  /\ \A i \in 1..Len(s.exec) : ~Fuzzy(s.exec[i])
  /\ \A i \in 1..Len(s.float) : FPrintable(s.float[i])
  /\ \A i \in 1..Len(s.fvec) : \A j \in 1..Len(s.fvec[i]) : FPrintable(s.fvec[i][j])
  /\ \A k \in DOMAIN s.bind : AllAscii(k) /\ ~Fuzzy(s.bind[k])
StateTextOK(text, s, WS) ==
  LET pre == BeforeGraph(s, WS)  post == AfterGraph(s, WS) IN
  IF s.graph = <<>> THEN text = pre \o post
  ELSE Len(text) >= Len(pre) + Len(post) /\ SubSeq(text, 1, Len(pre)) = pre
       /\ SubSeq(text, Len(text) - Len(post) + 1, Len(text)) = post
=============================================================================
