----------------------------- MODULE PushParser -----------------------------
(***************************************************************************)
(* The parser (property C03) and the printer (property C11) at the level   *)
(* of strings: whitespace split, the classification cascade of a token,    *)
(* and the tree builder with its depth counter and the "follow the bottom  *)
(* item depth levels down, push at the front" rule.                        *)
(* Float VALUES are exact where the decimal text denotes a small dyadic    *)
(* number and left open otherwise (pattern kind "floatany").               *)
(***************************************************************************)
EXTENDS PushFootprint

Ch(s, i) == SubSeq(s, i, i)
Digits == {"0", "1", "2", "3", "4", "5", "6", "7", "8", "9"}
DigitVal == ("0" :> 0) @@ ("1" :> 1) @@ ("2" :> 2) @@ ("3" :> 3) @@ ("4" :> 4) @@ ("5" :> 5) @@ ("6" :> 6) @@
            ("7" :> 7) @@ ("8" :> 8) @@ ("9" :> 9)
\* ASCII white space; further Unicode White_Space characters are supplied by the trace spec
AsciiWS == {" ", "\t", "\n", "\r", "\f"}

\* split into maximal runs of non-white-space characters
RECURSIVE SplitWS(_, _, _, _)
SplitWS(s, i, cur, WS) ==
  IF i > Len(s) THEN (IF cur = "" THEN <<>> ELSE <<cur>>)
  ELSE IF Ch(s, i) \in WS THEN (IF cur = "" THEN <<>> ELSE <<cur>>) \o SplitWS(s, i + 1, "", WS)
  ELSE SplitWS(s, i + 1, cur \o Ch(s, i), WS)

RECURSIVE SplitOn(_, _, _, _)
SplitOn(s, sep, i, cur) ==           \* like str::split: always at least one piece
  IF i > Len(s) THEN <<cur>>
  ELSE IF Ch(s, i) = sep THEN <<cur>> \o SplitOn(s, sep, i + 1, "")
  ELSE SplitOn(s, sep, i + 1, cur \o Ch(s, i))

RECURSIVE AllDigits(_, _)
AllDigits(s, i) == i > Len(s) \/ (Ch(s, i) \in Digits /\ AllDigits(s, i + 1))
StartsWith(s, p) == Len(s) >= Len(p) /\ SubSeq(s, 1, Len(p)) = p
Lower(c) == CASE c = "I" -> "i" [] c = "N" -> "n" [] c = "F" -> "f" [] c = "A" -> "a" [] c = "T" -> "t" [] c = "Y" -> "y" [] OTHER -> c
RECURSIVE LowerStr(_, _)
LowerStr(s, i) == IF i > Len(s) THEN "" ELSE Lower(Ch(s, i)) \o LowerStr(s, i + 1)

\* Rust's i32::from_str: optional sign, one or more digits, value within the i32 range.
\* returns [ok, v]
RECURSIVE AccInt(_, _, _, _)
AccInt(s, i, neg, acc) ==
  IF i > Len(s) THEN [ok |-> TRUE, v |-> acc]
  ELSE LET d == DigitVal[Ch(s, i)] IN
       IF ~MulFits(acc, 10) THEN [ok |-> FALSE, v |-> 0]
       ELSE LET a10 == acc * 10 IN
            IF neg THEN (IF SubFits(a10, d) THEN AccInt(s, i + 1, neg, a10 - d) ELSE [ok |-> FALSE, v |-> 0])
            ELSE (IF AddFits(a10, d) THEN AccInt(s, i + 1, neg, a10 + d) ELSE [ok |-> FALSE, v |-> 0])
ParseInt(s) ==
  LET signed == Len(s) >= 1 /\ Ch(s, 1) \in {"+", "-"}
      body   == IF signed THEN SubSeq(s, 2, Len(s)) ELSE s
  IN IF body = "" \/ ~AllDigits(body, 1) THEN [ok |-> FALSE, v |-> 0]
     ELSE AccInt(body, 1, signed /\ Ch(s, 1) = "-", 0)

\* Rust's f32::from_str grammar: [+-]? ( inf | infinity | nan | digits [. digits*] [e [+-] digits] | . digits+ [exp] )
\* (case-insensitive for the words and the exponent marker)
IndexOfAny(s, set) == LET hits == {i \in 1..Len(s) : Ch(s, i) \in set} IN
                      IF hits = {} THEN 0 ELSE CHOOSE i \in hits : \A j \in hits : i <= j
FloatGrammar(s) ==
  LET signed == Len(s) >= 1 /\ Ch(s, 1) \in {"+", "-"}
      body   == IF signed THEN SubSeq(s, 2, Len(s)) ELSE s
      low    == LowerStr(body, 1)
  IN IF low \in {"inf", "infinity", "nan"} THEN TRUE
     ELSE LET ep   == IndexOfAny(body, {"e", "E"})
              mant == IF ep = 0 THEN body ELSE SubSeq(body, 1, ep - 1)
              expo == IF ep = 0 THEN "" ELSE SubSeq(body, ep + 1, Len(body))
              dp   == IndexOfAny(mant, {"."})
              ip   == IF dp = 0 THEN mant ELSE SubSeq(mant, 1, dp - 1)
              fp   == IF dp = 0 THEN "" ELSE SubSeq(mant, dp + 1, Len(mant))
              esig == Len(expo) >= 1 /\ Ch(expo, 1) \in {"+", "-"}
              edig == IF esig THEN SubSeq(expo, 2, Len(expo)) ELSE expo
          IN /\ AllDigits(ip, 1) /\ AllDigits(fp, 1) /\ (ip # "" \/ fp # "")
             /\ (ep = 0 \/ (edig # "" /\ AllDigits(edig, 1)))
\* exact value of plain decimals "ddd.ddd" (no exponent) that denote a dyadic number with a small
\* numerator; [exact, b]
RECURSIVE Pow5(_)
Pow5(k) == IF k = 0 THEN 1 ELSE 5 * Pow5(k - 1)
FloatValue(s) ==
  LET signed == Len(s) >= 1 /\ Ch(s, 1) \in {"+", "-"}
      neg    == signed /\ Ch(s, 1) = "-"
      body   == IF signed THEN SubSeq(s, 2, Len(s)) ELSE s
      dp     == IndexOfAny(body, {"."})
      ip     == IF dp = 0 THEN body ELSE SubSeq(body, 1, dp - 1)
      fp     == IF dp = 0 THEN "" ELSE SubSeq(body, dp + 1, Len(body))
      k      == Len(fp)
      simple == IndexOfAny(body, {"e", "E", "n", "N", "i", "I"}) = 0 /\ Len(ip) + k <= 9 /\ Len(ip) + k >= 1
  IN IF ~simple THEN [exact |-> FALSE, b |-> 0]
     ELSE LET n == AccInt(ip \o fp, 1, FALSE, 0).v IN
          IF n = 0 THEN [exact |-> TRUE, b |-> IF neg THEN FNegZero ELSE FPosZero]
          ELSE IF n % Pow5(k) # 0 THEN [exact |-> FALSE, b |-> 0]
          ELSE LET r == FEncode(neg, n \div Pow5(k), -k) IN
               IF r.t = "v" THEN [exact |-> TRUE, b |-> r.b] ELSE [exact |-> FALSE, b |-> 0]
FloatItem(s) == LET v == FloatValue(s) IN IF v.exact THEN IFloat(v.b) ELSE [k |-> "floatany", v |-> 0]

\* vector literal payloads: [ok, item]
VecBool(p) == LET els == SplitOn(p, ",", 1, "") IN
  IF \A i \in 1..Len(els) : els[i] \in {"1", "0", "true", "false"}
  THEN [ok |-> TRUE, item |-> IBVec([i \in 1..Len(els) |-> els[i] \in {"1", "true"}])] ELSE [ok |-> FALSE, item |-> EmptyList]
VecInt(p) == LET els == SplitOn(p, ",", 1, "") IN
  IF \A i \in 1..Len(els) : ParseInt(els[i]).ok
  THEN [ok |-> TRUE, item |-> IIVec([i \in 1..Len(els) |-> ParseInt(els[i]).v])] ELSE [ok |-> FALSE, item |-> EmptyList]
VecFloat(p) == LET els == SplitOn(p, ",", 1, "") IN
  IF \A i \in 1..Len(els) : FloatGrammar(els[i])
  THEN [ok |-> TRUE, item |-> [k |-> "fvecp", v |-> [i \in 1..Len(els) |-> FloatValue(els[i])]]] ELSE [ok |-> FALSE, item |-> EmptyList]

\* classification of one token: [kind, item]; kind in open / close / drop / item
Classify(tok, instrs) ==
  LET payload(n) == SubSeq(tok, n + 1, Len(tok) - 1)
      \* a well-formed literal (closing bracket, every element readable) is that vector; a malformed one "is dropped"
      \* (C03) - or, where the implementation is lenient (it does not look at the last character), read as a vector of
      \* its type: pattern optvec = nothing or one vector of type t, never anything else
      vec(r, t) == IF r.ok /\ Ch(tok, Len(tok)) = "]" THEN [kind |-> "item", item |-> r.item]
                   ELSE [kind |-> "item", item |-> [k |-> "optvec", v |-> t]]
  IN IF StartsWith(tok, "INT[") THEN (IF Len(tok) < 5 THEN vec([ok |-> FALSE], "ivec") ELSE vec(VecInt(payload(4)), "ivec"))
     ELSE IF StartsWith(tok, "FLOAT[") THEN (IF Len(tok) < 7 THEN vec([ok |-> FALSE], "fvec") ELSE vec(VecFloat(payload(6)), "fvec"))
     ELSE IF StartsWith(tok, "BOOL[") THEN (IF Len(tok) < 6 THEN vec([ok |-> FALSE], "bvec") ELSE vec(VecBool(payload(5)), "bvec"))
     ELSE IF tok = "(" THEN [kind |-> "open", item |-> EmptyList]
     ELSE IF tok = ")" THEN [kind |-> "close", item |-> EmptyList]
     ELSE IF tok \in instrs THEN [kind |-> "item", item |-> IIns(tok)]
     ELSE IF ParseInt(tok).ok THEN [kind |-> "item", item |-> IInt(ParseInt(tok).v)]
     ELSE IF FloatGrammar(tok) THEN [kind |-> "item", item |-> FloatItem(tok)]
     ELSE IF tok = "TRUE" THEN [kind |-> "item", item |-> IBool(TRUE)]
     ELSE IF tok = "FALSE" THEN [kind |-> "item", item |-> IBool(FALSE)]
     ELSE [kind |-> "item", item |-> IId(tok)]

\* the tree builder: follow the bottom (= last) item `depth` levels down, push at the front (= bottom)
RECURSIVE RecPush(_, _, _)
RecPush(stk, item, depth) ==
  IF depth = 0 THEN stk \o <<item>>
  ELSE IF stk = <<>> THEN <<item>>
  ELSE LET b == stk[Len(stk)] IN
       IF b.k = "list" THEN Front(stk) \o <<[b EXCEPT !.v = RecPush(b.v, item, depth - 1)]>>
       ELSE stk                                   \* no open list at that depth: the token is lost

\* [exec, depth, balanced]: balanced = FALSE once a ")" arrives at depth 0
RECURSIVE ParseTokens(_, _, _, _, _)
ParseTokens(toks, i, exec, depth, instrs) ==
  IF i > Len(toks) THEN [exec |-> exec, depth |-> depth, balanced |-> TRUE]
  ELSE LET c == Classify(toks[i], instrs) IN
       CASE c.kind = "drop"  -> ParseTokens(toks, i + 1, exec, depth, instrs)
         [] c.kind = "open"  -> ParseTokens(toks, i + 1, RecPush(exec, EmptyList, depth), depth + 1, instrs)
         [] c.kind = "close" -> IF depth = 0 THEN [exec |-> exec, depth |-> 0, balanced |-> FALSE]
                                ELSE ParseTokens(toks, i + 1, exec, depth - 1, instrs)
         [] c.kind = "item"  -> ParseTokens(toks, i + 1, RecPush(exec, c.item, depth), depth, instrs)
Parse(text, exec, instrs, WS) == ParseTokens(SplitWS(text, 1, "", WS), 1, exec, 0, instrs)
\* a token with a vector prefix that is not a well-formed literal (wrong or missing terminator, an element the
\* implementation does not read): what such a text "describes" is not defined; the implementation drops most of them
\* and reads some leniently, another reading is as good
VecPrefixed(tok) == StartsWith(tok, "INT[") \/ StartsWith(tok, "FLOAT[") \/ StartsWith(tok, "BOOL[")
Malformed(tok, instrs) == VecPrefixed(tok) /\ (Classify(tok, instrs).kind = "drop" \/ Ch(tok, Len(tok)) # "]")
Ambiguous(text, instrs, WS) == LET toks == SplitWS(text, 1, "", WS) IN \E i \in 1..Len(toks) : Malformed(toks[i], instrs)

\* does a concrete item match a parser pattern (float values may be left open)?
RECURSIVE ItemMatch(_, _)
RECURSIVE SeqMatch(_, _)
ItemMatch(p, c) ==
  IF p.k = "floatany" THEN c.k = "float"
  ELSE IF p.k = "fvecp" THEN c.k = "fvec" /\ Len(c.v) = Len(p.v) /\ \A i \in 1..Len(p.v) : (~p.v[i].exact \/ p.v[i].b = c.v[i])
  ELSE IF p.k = "list" THEN c.k = "list" /\ SeqMatch(p.v, c.v)
  ELSE IF p.k = "optvec" THEN c.k = p.v
  ELSE p = c
\* element by element; an optvec pattern matches no element or one vector of its type
HasOpt(ps) == \E i \in 1..Len(ps) : ps[i].k = "optvec"
SeqMatch(ps, cs) ==
  IF ~HasOpt(ps) THEN Len(ps) = Len(cs) /\ \A i \in 1..Len(ps) : ItemMatch(ps[i], cs[i])
  ELSE IF ps = <<>> THEN cs = <<>>
  ELSE IF Head(ps).k = "optvec"
       THEN SeqMatch(Tail(ps), cs) \/ (cs # <<>> /\ Head(cs).k = Head(ps).v /\ SeqMatch(Tail(ps), Tail(cs)))
       ELSE cs # <<>> /\ ItemMatch(Head(ps), Head(cs)) /\ SeqMatch(Tail(ps), Tail(cs))

\* rendering a pattern-free item back to program text (tokens separated by single blanks)
RECURSIVE Render(_)
Render(t) ==
  CASE t.k = "list" -> IF t.v = <<>> THEN "( )" ELSE "( " \o JoinStr([i \in 1..Len(t.v) |-> Render(t.v[i])], " ") \o " )"
    [] t.k = "int"  -> ToString(t.v)
    [] t.k = "bool" -> BoolStr(t.v)
    [] t.k = "bvec" -> "BOOL[" \o JoinStr([i \in 1..Len(t.v) |-> IF t.v[i] THEN "1" ELSE "0"], ",") \o "]"
    [] t.k = "ivec" -> "INT[" \o JoinStr([i \in 1..Len(t.v) |-> ToString(t.v[i])], ",") \o "]"
    [] OTHER -> t.v
=============================================================================
