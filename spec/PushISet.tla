------------------------------ MODULE PushISet ------------------------------
(***************************************************************************)
(* The instruction set as an object (README: "the instruction set can be   *)
(* extended / instructions can be replaced through `add`").  Abstract      *)
(* state: the set of registered names and, per name, what it does: tag 0   *)
(* = the built-in behaviour of the specification (Apply), tag k > 0 = a    *)
(* custom closure that pushes k on the INTEGER stack (what the harness     *)
(* registers).                                                             *)
(*   new          no names                                                 *)
(*   load         registers every built-in name (replacing custom closures *)
(*                registered under a built-in name, keeping other customs) *)
(*   add(n, k)    registers / replaces n; answers whether n was registered *)
(*   is / get     membership                                               *)
(*   cache        a snapshot of the names (order unspecified)              *)
(*   exec(n)      one interpreter step on the instruction item n: an       *)
(*                unregistered name is dropped, a registered one runs what *)
(*                was registered LAST under that name                      *)
(* Not part of a listed property: extended coverage (plan EXT).            *)
(***************************************************************************)
EXTENDS PushContainers

ISEmpty == [names |-> {}, tag |-> <<>>]
ISTag(s, n) == IF n \in DOMAIN s.tag THEN s.tag[n] ELSE 0
Builtin == Registry \cup ExtraInstr      \* everything `load` registers in the build under test
ISLoad(s) == LET ns == s.names \cup Builtin IN
             [names |-> ns, tag |-> [n \in ns |-> IF n \in Builtin THEN 0 ELSE ISTag(s, n)]]
ISAdd(s, n, k) == LET ns == s.names \cup {n} IN
                  [names |-> ns, tag |-> [m \in ns |-> IF m = n THEN k ELSE ISTag(s, m)]]
\* the probe state of exec: INTEGER = <<3, 2>> (top first), everything else empty
ISProbe(n) == [EmptyState EXCEPT !.int = <<3, 2>>, !.exec = <<IIns(n)>>]
ISExec(s, n) ==
  IF n \notin s.names THEN <<3, 2>>
  ELSE IF ISTag(s, n) = 0 THEN Apply(n, PopN(ISProbe(n), "exec", 1)).post.int
  ELSE <<ISTag(s, n), 3, 2>>
ISOp(m, a, s) ==
  CASE m = "load"  -> PR(ISLoad(s), RUnit)
    [] m = "add"   -> PR(ISAdd(s, a[1], a[2]), RVal(a[1] \in s.names))
    [] m \in {"is", "get"} -> PR(s, RVal(a[1] \in s.names))
    [] m = "cache_len" -> PR(s, RVal(Cardinality(s.names)))
    [] m = "exec"  -> PR(s, RVal(ISExec(s, a[1])))
=============================================================================
