---------------------------- MODULE PushFootprint ---------------------------
(***************************************************************************)
(* Footprints (property C10): for every registered instruction the state   *)
(* fields it takes operands from (Reads) and the fields it may change      *)
(* (Writes).  The table is not trusted: the model checker verifies it      *)
(* against Apply (FrameOK below) on every explored case, and trace         *)
(* validation evaluates the same predicate on every recorded step.         *)
(***************************************************************************)
EXTENDS PushInterp

Nine == {"bool", "int", "float", "name", "code", "exec", "bvec", "ivec", "fvec"}
ScalarOf(f) == CASE f = "bvec" -> "bool" [] f = "ivec" -> "int" [] f = "fvec" -> "float"
VecPrefix == ("BOOLVECTOR" :> "bvec") @@ ("INTVECTOR" :> "ivec") @@ ("FLOATVECTOR" :> "fvec")
VecNames(op) == {T \o "." \o op : T \in DOMAIN VecPrefix}
VecOf(n, op) == VecPrefix[CHOOSE T \in DOMAIN VecPrefix : T \o "." \o op = n]

FP(r, w) == [r |-> r, w |-> w]

StackOpFootprint(T, op) ==
  LET f == TypePrefix[T] IN
  CASE op \in {"DUP", "POP", "FLUSH", "SWAP", "ROT"} -> FP({f}, {f})
    [] op \in {"YANK", "YANKDUP", "SHOVE"}           -> FP({"int", f}, {"int", f})
    [] op = "STACKDEPTH"                             -> FP({f}, {"int"})
    [] op = "ID"                                     -> FP({}, {"int"})
    [] op = "DEFINE"                                 -> FP({"name", f}, {"name", f, "bind"})

Footprint(n) ==
  IF n \in StackOpNames THEN StackOpFootprint(StackOpOf[n][1], StackOpOf[n][2]) ELSE
  CASE n \in {"BOOLEAN.=", "BOOLEAN.AND", "BOOLEAN.OR", "BOOLEAN.NOT"} -> FP({"bool"}, {"bool"})
    [] n = "BOOLEAN.FROMFLOAT"   -> FP({"float"}, {"bool"})
    [] n = "BOOLEAN.FROMINTEGER" -> FP({"int"}, {"bool"})
    [] n \in {"INTEGER.+", "INTEGER.-", "INTEGER.*", "INTEGER./", "INTEGER.%", "INTEGER.ABS",
              "INTEGER.MAX", "INTEGER.MIN", "INTEGER.DDUP"} -> FP({"int"}, {"int"})
    [] n \in {"INTEGER.<", "INTEGER.=", "INTEGER.>"} -> FP({"int"}, {"int", "bool"})
    [] n = "INTEGER.FROMBOOLEAN" -> FP({"bool"}, {"bool", "int"})
    [] n = "INTEGER.FROMFLOAT"   -> FP({"float"}, {"float", "int"})
    [] n \in {"FLOAT.+", "FLOAT.-", "FLOAT.*", "FLOAT./", "FLOAT.%", "FLOAT.MAX", "FLOAT.MIN",
              "FLOAT.COS", "FLOAT.SIN", "FLOAT.TAN", "FLOAT.EXP"} -> FP({"float"}, {"float"})
    [] n \in {"FLOAT.<", "FLOAT.=", "FLOAT.>"} -> FP({"float"}, {"float", "bool"})
    [] n = "FLOAT.FROMBOOLEAN" -> FP({"bool"}, {"bool", "float"})
    [] n = "FLOAT.FROMINTEGER" -> FP({"int"}, {"int", "float"})
    [] n = "NAME.="    -> FP({"name"}, {"name", "bool"})
    [] n = "NAME.CAT"  -> FP({"name"}, {"name"})
    [] n = "NAME.QUOTE" -> FP({}, {"quote"})
    [] n = "NAME.SEND"  -> FP({}, {"send"})
    [] n = "VERIF.TIMEUP" -> FP({}, {"cfg"})
    [] n \in ({"NOOP", "CODE.NOOP"} \cup HarnessInstr) \ {"VERIF.TIMEUP"} -> FP({}, {})
    [] n \in {"CODE.APPEND", "CODE.CAR", "CODE.CDR", "CODE.CONS", "CODE.CONTAINER", "CODE.LIST",
              "CODE.SUBST"} -> FP({"code"}, {"code"})
    [] n \in {"CODE.=", "CODE.ATOM", "CODE.NULL", "CODE.CONTAINS", "CODE.MEMBER"} -> FP({"code"}, {"bool"})
    [] n = "CODE.DEFINITION" -> FP({"name"}, {"name", "code"})
    [] n \in {"CODE.DISCREPANCY", "CODE.LENGTH", "CODE.POSITION", "CODE.SIZE"} -> FP({"code"}, {"int"})
    [] n \in {"CODE.DO", "CODE.DO*"} -> FP({"code"}, {"exec"})
    [] n \in {"CODE.EXTRACT", "CODE.NTH", "CODE.INSERT"} -> FP({"int", "code"}, {"int", "code"})
    [] n = "CODE.FROMBOOLEAN" -> FP({"bool"}, {"bool", "code"})
    [] n = "CODE.FROMFLOAT"   -> FP({"float"}, {"float", "code"})
    [] n = "CODE.FROMINTEGER" -> FP({"int"}, {"int", "code"})
    [] n = "CODE.FROMNAME"    -> FP({"name"}, {"name", "code"})
    [] n = "CODE.IF"    -> FP({"code", "bool"}, {"code", "bool", "exec"})
    [] n = "CODE.LOOP"  -> FP({"code", "index"}, {"code", "index", "exec"})
    [] n = "CODE.PRINT" -> FP({"code"}, {"name"})
    [] n = "CODE.QUOTE" -> FP({"exec"}, {"exec", "code"})
    [] n = "CODE.RAND"  -> FP({"int"}, {"int", "code"})
    [] n = "EXEC.="   -> FP({"exec"}, {"bool"})
    [] n = "EXEC.CMD" -> FP({"int", "name"}, {"int", "name"})
    [] n = "EXEC.IF"  -> FP({"exec", "bool"}, {"exec", "bool"})
    [] n \in {"EXEC.K", "EXEC.S", "EXEC.Y"} -> FP({"exec"}, {"exec"})
    [] n = "EXEC.LOOP" -> FP({"exec", "index"}, {"exec", "index"})
    [] n = "INDEX.CURRENT" -> FP({"index"}, {"int"})
    [] n = "INDEX.DEFINE"  -> FP({"int"}, {"int", "index"})
    [] n = "INDEX.DESTINATION" -> FP({"index"}, {"index", "int"})       \* (result on INDEX as implemented, on INTEGER as documented)
    [] n \in {"INDEX.INCREASE", "INDEX.POP", "INDEX.FLUSH"} -> FP({"index"}, {"index"})
    [] n \in {"BOOLVECTOR.AND", "BOOLVECTOR.OR", "BOOLVECTOR.NOT"} -> FP({"bvec", "int"}, {"bvec", "int"})
    [] n \in {"INTVECTOR.+", "INTVECTOR.-"} -> FP({"ivec", "int"}, {"ivec", "int"})
    [] n \in {"FLOATVECTOR.+", "FLOATVECTOR.-", "FLOATVECTOR.*", "FLOATVECTOR./"} -> FP({"fvec", "int"}, {"fvec", "int"})
    [] n \in {"BOOLVECTOR.COUNT"} \cup VecNames("LENGTH") -> FP({VecOf(IF n = "BOOLVECTOR.COUNT" THEN "BOOLVECTOR.LENGTH" ELSE n, "LENGTH")}, {"int"})
    [] n \in VecNames("EQUAL") -> FP({VecOf(n, "EQUAL")}, {VecOf(n, "EQUAL"), "bool"})
    [] n \in VecNames("GET")   -> LET f == VecOf(n, "GET") IN FP({"int", f}, {"int", ScalarOf(f)})
    [] n \in VecNames("SET")   -> LET f == VecOf(n, "SET") IN FP({"int", ScalarOf(f), f}, {"int", ScalarOf(f), f})
    [] n \in VecNames("ONES")  -> FP({"int"}, {"int", VecOf(n, "ONES")})
    [] n \in VecNames("ZEROS") -> FP({"int"}, {"int", VecOf(n, "ZEROS")})
    [] n \in VecNames("ROTATE") -> LET f == VecOf(n, "ROTATE") IN FP({ScalarOf(f), f}, {ScalarOf(f), f})
    [] n \in VecNames("SORT*ASC")  -> FP({VecOf(n, "SORT*ASC")}, {VecOf(n, "SORT*ASC")})
    [] n \in VecNames("SORT*DESC") -> FP({VecOf(n, "SORT*DESC")}, {VecOf(n, "SORT*DESC")})
    [] n \in {"INTVECTOR.APPEND", "INTVECTOR.REMOVE", "INTVECTOR.SET*INSERT"} -> FP({"ivec", "int"}, {"ivec", "int"})
    [] n = "FLOATVECTOR.APPEND" -> FP({"fvec", "float"}, {"fvec", "float"})
    [] n = "INTVECTOR.BOOLINDEX" -> FP({"bvec"}, {"bvec", "ivec"})
    [] n = "INTVECTOR.CONTAINS"  -> FP({"int", "ivec"}, {"int", "ivec", "bool"})
    [] n = "INTVECTOR.EMPTY"     -> FP({}, {"ivec"})
    [] n = "FLOATVECTOR.EMPTY"   -> FP({}, {"fvec"})
    [] n = "INTVECTOR.FROMINT"   -> FP({"int"}, {"int", "ivec"})
    [] n = "INTVECTOR.LOOP"      -> FP({"ivec", "exec"}, {"ivec", "exec", "int"})
    [] n = "INTVECTOR.MEAN"      -> FP({"ivec"}, {"float"})
    [] n = "FLOATVECTOR.MEAN"    -> FP({"fvec"}, {"float"})
    [] n = "INTVECTOR.SUM"       -> FP({"ivec"}, {"int"})
    [] n = "FLOATVECTOR.SUM"     -> FP({"fvec"}, {"float"})
    [] n = "FLOATVECTOR.*SCALAR" -> FP({"float", "fvec"}, {"float", "fvec"})
    [] n = "FLOATVECTOR.SINE"    -> FP({"float", "int"}, {"float", "int", "fvec"})
    [] n = "BOOLVECTOR.RAND"     -> FP({"int", "float"}, {"int", "float", "bvec"})
    [] n = "INTVECTOR.RAND"      -> FP({"int"}, {"int", "ivec"})
    [] n = "FLOATVECTOR.RAND"    -> FP({"int", "float"}, {"int", "float", "fvec"})
    [] n = "LIST.ADD"    -> FP(Nine, Nine)
    [] n = "LIST.SET"    -> FP(Nine, Nine)
    [] n = "LIST.REMOVE" -> FP({"int", "code"}, {"int", "code"})
    [] n = "LIST.GET"    -> FP({"int", "code"}, {"int", "exec"})
    [] n = "LIST.BVAL"   -> FP({"int", "code"}, {"int", "bool"})
    [] n = "LIST.IVAL"   -> FP({"int", "code"}, {"int"})
    [] n = "LIST.FVAL"   -> FP({"int", "code"}, {"int", "float"})
    [] n = "LIST.NEIGHBOR*IDS"   -> FP({"int", "float"}, {"int", "float", "ivec"})
    [] n = "LIST.NEIGHBOR*BVALS" -> FP({"int", "float", "code"}, {"int", "float", "bvec"})
    [] n = "LIST.NEIGHBOR*IVALS" -> FP({"int", "float", "code"}, {"int", "float", "ivec"})
    [] n = "LIST.NEIGHBOR*FVALS" -> FP({"int", "float", "code"}, {"int", "float", "fvec"})
    [] n = "INPUT.AVAILABLE"  -> FP({"input"}, {"bool"})
    [] n = "INPUT.GET"        -> FP({"int", "input"}, {"int", "bool"})
    [] n = "INPUT.NEXT"       -> FP({"input"}, {"input"})
    [] n = "INPUT.READ"       -> FP({"input"}, {"bvec", "ivec"})
    [] n = "INPUT.STACKDEPTH" -> FP({"input"}, {"int"})
    [] n = "OUTPUT.FLUSH"      -> FP({"output"}, {"output"})
    [] n = "OUTPUT.STACKDEPTH" -> FP({"output"}, {"int"})
    [] n = "OUTPUT.WRITE"      -> FP({"bvec", "ivec"}, {"bvec", "ivec", "output"})
    [] n \in {"GRAPH.ADD", "GRAPH.DUP"} -> FP({"graph"}, {"graph"})
    [] n = "GRAPH.NODE*ADD" -> FP({"graph", "int"}, {"graph", "int", "nid"})
    [] n \in {"GRAPH.NODE*GETSTATE", "GRAPH.NODE*HISTORY"} -> FP({"graph", "int"}, {"int"})
    [] n = "GRAPH.NODE*SETSTATE" -> FP({"graph", "int"}, {"graph", "int"})
    [] n \in {"GRAPH.NODE*NEIGHBORS", "GRAPH.NODE*PREDECESSORS", "GRAPH.NODE*SUCCESSORS"}
         -> FP({"graph", "ivec", "int"}, {"ivec", "int"})
    [] n = "GRAPH.NODE*STATESWITCH" -> FP({"graph", "ivec", "bvec", "int"}, {"graph", "ivec", "bvec", "int"})
    [] n = "GRAPH.NODES" -> FP({"graph", "ivec"}, {"ivec"})
    [] n = "GRAPH.NODES*HISTORY" -> FP({"graph", "int", "ivec"}, {"int", "ivec"})
    [] n = "GRAPH.STACKDEPTH" -> FP({"graph"}, {"int"})
    [] n \in {"GRAPH.PRINT", "GRAPH.PRINT*DIFF"} -> FP({"graph"}, {"name"})
    [] n \in {"GRAPH.EDGE*ADD", "GRAPH.EDGE*SETWEIGHT"} -> FP({"graph", "float", "int"}, {"graph", "float", "int"})
    [] n \in {"GRAPH.EDGE*GETWEIGHT", "GRAPH.EDGE*HISTORY"} -> FP({"graph", "int"}, {"int", "float"})
    [] n = "BOOLEAN.RAND" -> FP({}, {"bool"})
    [] n = "INTEGER.RAND" -> FP({}, {"int"})
    [] n = "FLOAT.RAND"   -> FP({}, {"float"})
    [] n \in {"NAME.RAND", "NAME.RANDBOUNDNAME"} -> FP({}, {"name"})

Reads(n)  == Footprint(n).r
Writes(n) == Footprint(n).w

\* F1/F2 of property C10 for one instruction application pre -> post (pre without the instruction):
\*  - fields outside Writes(n) are unchanged;
\*  - an unfired application changes a sequence field only by dropping items from its top
\*    (operands it had already taken) and changes no flat field.
FrameOK(n, pre, post, fired) ==
  /\ \A f \in AllFields \ Writes(n) : post[f] = pre[f]
  /\ ~fired => /\ \A f \in SeqFields : IsSuffix(post[f], pre[f])
               /\ \A f \in FlatFields : post[f] = pre[f]
\* which fields violate it (diagnostics)
FrameViolations(n, pre, post, fired) ==
  {f \in AllFields \ Writes(n) : post[f] # pre[f]}
  \cup (IF fired THEN {} ELSE {f \in SeqFields : ~IsSuffix(post[f], pre[f])} \cup {f \in FlatFields : post[f] # pre[f]})
=============================================================================
