----------------------------- MODULE PushVector -----------------------------
(***************************************************************************)
(* BOOLVECTOR / INTVECTOR / FLOATVECTOR instructions other than the        *)
(* generic stack family (property C09).                                    *)
(*                                                                         *)
(* Element-wise rule (README): the TOP vector, shifted by the offset, is   *)
(* combined INTO the SECOND vector on the overlapping positions only:      *)
(*   for every position i of top:  j = i + offset;                         *)
(*   if j is a position of second:  second[j] := second[j] op top[i]       *)
(* every other element of second is unchanged; the result has second's     *)
(* length.                                                                 *)
(***************************************************************************)
EXTENDS PushCode

\* 1-based position in `top` that lands on 1-based position j of `second`, or 0 when none
SrcPos(j, off, topLen) ==
  IF ~SubFits(j, off) THEN 0
  ELSE LET i == j - off IN IF i >= 1 /\ i <= topLen THEN i ELSE 0

\* generic element-wise combination; Op(a, b) returns [ok, v, c]: ok = exact value v, else class c
EW(second, top, off, Op(_, _)) ==
  LET cell(j) == LET i == SrcPos(j, off, Len(top)) IN
                 IF i = 0 THEN [ok |-> TRUE, v |-> second[j], c |-> ""] ELSE Op(second[j], top[i])
  IN [v     |-> [j \in 1..Len(second) |-> cell(j).v],
      holes |-> SelectSeq([j \in 1..Len(second) |-> [j |-> j, ok |-> cell(j).ok, c |-> cell(j).c]],
                          LAMBDA h : ~h.ok)]
Exact(v) == [ok |-> TRUE, v |-> v, c |-> ""]
Open(c)  == [ok |-> FALSE, v |-> 0, c |-> c]
OfFRes(r) == IF r.t = "v" THEN Exact(r.b) ELSE IF r.t = "nan" THEN [ok |-> FALSE, v |-> FQNaN, c |-> "nan"]
             ELSE Open("float")
IntAddE(a, b) == IF AddFits(a, b) THEN Exact(a + b) ELSE Open("int")
IntSubE(a, b) == IF SubFits(a, b) THEN Exact(a - b) ELSE Open("int")

\* VEC op: two vectors popped (all or nothing), then the offset; vectors consumed if no offset
ElementWise(s, f, Op(_, _)) ==
  IF ~Has(s, f, 2) THEN Unfired(s)
  ELSE LET s1 == PopN(s, f, 2) IN
       IF ~Has(s, "int", 1) THEN Unfired(s1)
       ELSE LET r  == EW(s[f][2], s[f][1], s.int[1], Op)
                s2 == PushOn(PopN(s1, "int", 1), f, r.v)
            IN FiredH(s2, [k \in 1..Len(r.holes) |-> Hole(<<f, 1, r.holes[k].j>>, r.holes[k].c)])

\* any zero divisor in the overlap: operands consumed, no result
FloatVecDiv(s) ==
  IF ~Has(s, "fvec", 2) THEN Unfired(s)
  ELSE LET s1 == PopN(s, "fvec", 2) IN
       IF ~Has(s, "int", 1) THEN Unfired(s1)
       ELSE LET second == s.fvec[2]
                top    == s.fvec[1]
                off    == s.int[1]
                s2     == PopN(s1, "int", 1)
                zero   == \E j \in 1..Len(second) :
                            LET i == SrcPos(j, off, Len(top)) IN i # 0 /\ FIsZero(top[i])
            IN IF zero THEN Unfired(s2)            \* the documented guard failed: operands consumed, nothing pushed
               ELSE LET r == EW(second, top, off, LAMBDA a, b : OfFRes(FDiv(a, b)))
                    IN FiredH(PushOn(s2, "fvec", r.v),
                              [k \in 1..Len(r.holes) |-> Hole(<<"fvec", 1, r.holes[k].j>>, r.holes[k].c)])

\* GET: index popped first; a non-empty top vector yields its clamped element; vector stays
VecGet(s, f, sf) ==
  IF ~Has(s, "int", 1) THEN Unfired(s)
  ELSE LET s1 == PopN(s, "int", 1) IN
       IF ~Has(s1, f, 1) \/ s1[f][1] = <<>> THEN Unfired(s1)
       ELSE Fired(PushOn(s1, sf, s1[f][1][Clamp(s.int[1], Len(s1[f][1])) + 1]))
\* SET: index popped first, then the new element from the scalar stack
VecSet(s, f, sf) ==
  IF ~Has(s, "int", 1) THEN Unfired(s)
  ELSE LET s1 == PopN(s, "int", 1) IN
       IF ~Has(s1, sf, 1) THEN Unfired(s1)
       ELSE LET s2 == PopN(s1, sf, 1) IN
            IF ~Has(s2, f, 1) \/ s2[f][1] = <<>> THEN Unfired(s2)
            ELSE Fired(SetF(s2, f, <<[s2[f][1] EXCEPT ![Clamp(s.int[1], Len(s2[f][1])) + 1] = s1[sf][1]]>>
                                   \o Tail(s2[f])))

\* vectors longer than this are described by a hole class instead of being written out
Materialise == 5000
\* ONES / ZEROS: a positive size yields the constant vector, otherwise nothing
VecConst(s, f, x) ==
  IF ~Has(s, "int", 1) THEN Unfired(s)
  ELSE LET s1 == PopN(s, "int", 1) IN
       IF s.int[1] <= 0 THEN Unfired(s1)
       ELSE IF s.int[1] <= Materialise THEN Fired(PushOn(s1, f, SeqOf(x, s.int[1])))
       ELSE FiredH(PushOn(s1, f, <<>>), <<HoleAB(<<f, 1>>, "constvec", s.int[1], x)>>)

\* ROTATE: scalar popped; a non-empty top vector is rotated left by one and gets the scalar last
VecRotate(s, f, sf) ==
  IF ~Has(s, sf, 1) THEN Unfired(s)
  ELSE LET s1 == PopN(s, sf, 1) IN
       IF ~Has(s1, f, 1) \/ s1[f][1] = <<>> THEN Unfired(s1)
       ELSE Fired(SetF(s1, f, <<Tail(s1[f][1]) \o <<s[sf][1]>> >> \o Tail(s1[f])))

\* APPEND: only when a top vector exists is the scalar popped and appended
VecAppend(s, f, sf) ==
  IF ~Has(s, f, 1) \/ ~Has(s, sf, 1) THEN Unfired(s)
  ELSE Fired(SetF(PopN(s, sf, 1), f, <<s[f][1] \o <<s[sf][1]>> >> \o Tail(s[f])))

\* stable insertion sort of <<key, value>> pairs by key
RECURSIVE InsertSorted(_, _)
InsertSorted(sorted, p) ==
  IF sorted = <<>> THEN <<p>>
  ELSE IF p[1] < Head(sorted)[1] THEN <<p>> \o sorted
  ELSE <<Head(sorted)>> \o InsertSorted(Tail(sorted), p)
RECURSIVE SortPairs(_)
SortPairs(ps) == IF ps = <<>> THEN <<>> ELSE InsertSorted(SortPairs(Front(ps)), Last(ps))
SortByKeys(v, keys) == LET sp == SortPairs([i \in 1..Len(v) |-> <<keys[i], v[i]>>])
                       IN [i \in 1..Len(v) |-> sp[i][2]]
BoolKey(b) == IF b THEN 1 ELSE 0

\* SORT: in place; floats are ordered by the IEEE total order, descending = reversed ascending
VecSort(s, f, desc) ==
  IF ~Has(s, f, 1) THEN Unfired(s)
  ELSE LET v == s[f][1]
           asc == IF f = "bvec" THEN SortByKeys(v, [i \in 1..Len(v) |-> BoolKey(v[i])])
                  ELSE IF f = "ivec" THEN SortByKeys(v, v)
                  ELSE SortByKeys(v, [i \in 1..Len(v) |-> FTotalKey(v[i])])
       IN Fired(SetF(s, f, <<IF desc THEN Rev(asc) ELSE asc>> \o Tail(s[f])))

\* sums
RECURSIVE IntSumE(_, _)
IntSumE(v, acc) == IF v = <<>> THEN Exact(acc)
                   ELSE IF AddFits(acc, Head(v)) THEN IntSumE(Tail(v), acc + Head(v)) ELSE Open("int")
RECURSIVE FloatSumR(_, _)
FloatSumR(v, acc) == IF v = <<>> THEN acc
                     ELSE IF acc.t # "v" THEN (IF acc.t = "nan" THEN acc ELSE
                              (IF \E i \in 1..Len(v) : FIsNaN(v[i]) THEN FNaNRes ELSE FAnyRes))
                     ELSE FloatSumR(Tail(v), FAdd(acc.b, Head(v)))
FloatSum(v) == FloatSumR(v, FV(FNegZero))
\* push a float result; the sign of a zero sum is not pinned
PushFloatSum(s, r) ==
  IF r.t = "v" /\ FIsZero(r.b)
  THEN FiredH(PushOn(s, "float", FPosZero), <<HoleAB(<<"float", 1>>, "oneof", FPosZero, FNegZero)>>)
  ELSE PushFloatRes(s, r)

RemoveAll(v, x) == SelectSeq(v, LAMBDA y : y # x)
Contains(v, x)  == \E i \in 1..Len(v) : v[i] = x
TrueIdx(v)      == LET idx == SelectIdx(v, LAMBDA b : b, 1) IN [k \in 1..Len(idx) |-> idx[k] - 1]
VecFEq(a, b)    == Len(a) = Len(b) /\ \A i \in 1..Len(a) : FEq(a[i], b[i])

VectorInstr == {
  "BOOLVECTOR.AND", "BOOLVECTOR.OR", "BOOLVECTOR.NOT", "BOOLVECTOR.COUNT", "BOOLVECTOR.EQUAL",
  "BOOLVECTOR.GET", "BOOLVECTOR.SET", "BOOLVECTOR.LENGTH", "BOOLVECTOR.ONES", "BOOLVECTOR.ZEROS",
  "BOOLVECTOR.ROTATE", "BOOLVECTOR.SORT*ASC", "BOOLVECTOR.SORT*DESC",
  "INTVECTOR.+", "INTVECTOR.-", "INTVECTOR.APPEND", "INTVECTOR.BOOLINDEX", "INTVECTOR.CONTAINS",
  "INTVECTOR.EMPTY", "INTVECTOR.EQUAL", "INTVECTOR.FROMINT", "INTVECTOR.GET", "INTVECTOR.SET",
  "INTVECTOR.LENGTH", "INTVECTOR.LOOP", "INTVECTOR.MEAN", "INTVECTOR.ONES", "INTVECTOR.ZEROS",
  "INTVECTOR.REMOVE", "INTVECTOR.ROTATE", "INTVECTOR.SET*INSERT", "INTVECTOR.SORT*ASC",
  "INTVECTOR.SORT*DESC", "INTVECTOR.SUM",
  "FLOATVECTOR.+", "FLOATVECTOR.-", "FLOATVECTOR.*", "FLOATVECTOR./", "FLOATVECTOR.*SCALAR",
  "FLOATVECTOR.APPEND", "FLOATVECTOR.EMPTY", "FLOATVECTOR.EQUAL", "FLOATVECTOR.GET", "FLOATVECTOR.SET",
  "FLOATVECTOR.LENGTH", "FLOATVECTOR.MEAN", "FLOATVECTOR.ONES", "FLOATVECTOR.ZEROS",
  "FLOATVECTOR.ROTATE", "FLOATVECTOR.SINE", "FLOATVECTOR.SORT*ASC", "FLOATVECTOR.SORT*DESC",
  "FLOATVECTOR.SUM"}

ApplyVector(n, s) ==
  CASE n = "BOOLVECTOR.AND" -> ElementWise(s, "bvec", LAMBDA a, b : Exact(a /\ b))
    [] n = "BOOLVECTOR.OR"  -> ElementWise(s, "bvec", LAMBDA a, b : Exact(a \/ b))
    \* flips the elements at positions j with 0 <= j - offset < length
    [] n = "BOOLVECTOR.NOT" -> IF ~Has(s, "bvec", 1) THEN Unfired(s)
                               ELSE LET s1 == PopN(s, "bvec", 1) IN
                                    IF ~Has(s, "int", 1) THEN Unfired(s1)
                                    ELSE LET v == s.bvec[1] IN
                                         Fired(PushOn(PopN(s1, "int", 1), "bvec",
                                           [j \in 1..Len(v) |-> IF SrcPos(j, s.int[1], Len(v)) # 0 THEN ~v[j] ELSE v[j]]))
    [] n = "BOOLVECTOR.COUNT"  -> IF Has(s, "bvec", 1)
                                  THEN Fired(PushOn(s, "int", Len(TrueIdx(s.bvec[1]))))
                                  ELSE Unfired(s)
    [] n = "BOOLVECTOR.EQUAL"  -> Bin(s, "bvec", LAMBDA r, a, b : PushBool(r, a = b))
    [] n = "BOOLVECTOR.GET"    -> VecGet(s, "bvec", "bool")
    [] n = "BOOLVECTOR.SET"    -> VecSet(s, "bvec", "bool")
    [] n = "BOOLVECTOR.LENGTH" -> IF Has(s, "bvec", 1) THEN Fired(PushOn(s, "int", Len(s.bvec[1]))) ELSE Unfired(s)
    [] n = "BOOLVECTOR.ONES"   -> VecConst(s, "bvec", TRUE)
    [] n = "BOOLVECTOR.ZEROS"  -> VecConst(s, "bvec", FALSE)
    [] n = "BOOLVECTOR.ROTATE" -> VecRotate(s, "bvec", "bool")
    [] n = "BOOLVECTOR.SORT*ASC"  -> VecSort(s, "bvec", FALSE)
    [] n = "BOOLVECTOR.SORT*DESC" -> VecSort(s, "bvec", TRUE)
    [] n = "INTVECTOR.+" -> ElementWise(s, "ivec", IntAddE)
    [] n = "INTVECTOR.-" -> ElementWise(s, "ivec", IntSubE)
    [] n = "INTVECTOR.APPEND" -> VecAppend(s, "ivec", "int")
    [] n = "INTVECTOR.BOOLINDEX" -> Un(s, "bvec", LAMBDA r, a : Fired(PushOn(r, "ivec", TrueIdx(a))))
    \* integer popped first, then the vector; the vector is consumed
    [] n = "INTVECTOR.CONTAINS" -> IF ~Has(s, "int", 1) THEN Unfired(s)
                                   ELSE LET s1 == PopN(s, "int", 1) IN
                                        IF ~Has(s, "ivec", 1) THEN Unfired(s1)
                                        ELSE Fired(PushOn(PopN(s1, "ivec", 1), "bool", Contains(s.ivec[1], s.int[1])))
    [] n = "INTVECTOR.EMPTY"  -> Fired(PushOn(s, "ivec", <<>>))
    [] n = "INTVECTOR.EQUAL"  -> Bin(s, "ivec", LAMBDA r, a, b : PushBool(r, a = b))
    \* n popped, clamped into 0..depth; the n top integers become a vector, deepest first
    [] n = "INTVECTOR.FROMINT" -> IF ~Has(s, "int", 1) THEN Unfired(s)
                                  ELSE LET s1 == PopN(s, "int", 1)
                                           k  == Max2(Min2(Len(s1.int), s.int[1]), 0)
                                       IN Fired(PushOn(PopN(s1, "int", k), "ivec", Rev(Take(s1.int, k))))
    [] n = "INTVECTOR.GET"    -> VecGet(s, "ivec", "int")
    [] n = "INTVECTOR.SET"    -> VecSet(s, "ivec", "int")
    [] n = "INTVECTOR.LENGTH" -> IF Has(s, "ivec", 1) THEN Fired(PushOn(s, "int", Len(s.ivec[1]))) ELSE Unfired(s)
    \* one iteration: first element to INTEGER, body now, re-armed loop over the rest afterwards
    [] n = "INTVECTOR.LOOP" -> IF ~Has(s, "ivec", 1) THEN Unfired(s)
                               ELSE LET s1 == PopN(s, "ivec", 1) IN
                                    IF ~Has(s, "exec", 1) THEN Unfired(s1)
                                    ELSE LET s2 == PopN(s1, "exec", 1)
                                             v  == s.ivec[1]
                                             body == s.exec[1]
                                         IN IF v = <<>> THEN Fired(s2)
                                            ELSE Fired(PushOn(SetF(s2, "exec",
                                                   <<body, IList(<<IIVec(Tail(v)), IIns("INTVECTOR.LOOP"), body>>)>> \o s2.exec),
                                                   "int", v[1]))
    [] n = "INTVECTOR.MEAN" -> IF ~Has(s, "ivec", 1) THEN Unfired(s)
                               ELSE LET sm == IntSumE(s.ivec[1], 0) IN
                                    \* the i32 sum (where it is representable) divided in float arithmetic; exact when the
                                    \* quotient is an integer below 2^24 (the correctly rounded quotient is then that integer)
                                    IF sm.ok /\ Len(s.ivec[1]) > 0 /\ sm.v % Len(s.ivec[1]) = 0
                                       /\ sm.v \div Len(s.ivec[1]) < 16777216 /\ sm.v \div Len(s.ivec[1]) > -16777216
                                    THEN PushFloatRes(s, FV(FFromInt(sm.v \div Len(s.ivec[1]))))
                                    ELSE IF sm.ok THEN PushFloatRes(s, FDiv(FFromInt(sm.v), FFromInt(Len(s.ivec[1]))))
                                    ELSE PushFloatRes(s, FAnyRes)
    [] n = "INTVECTOR.ONES"   -> VecConst(s, "ivec", 1)
    [] n = "INTVECTOR.ZEROS"  -> VecConst(s, "ivec", 0)
    \* only when a top vector exists is the integer popped
    [] n = "INTVECTOR.REMOVE" -> IF ~Has(s, "ivec", 1) \/ ~Has(s, "int", 1) THEN Unfired(s)
                                 ELSE Fired(SetF(PopN(s, "int", 1), "ivec",
                                        <<RemoveAll(s.ivec[1], s.int[1])>> \o Tail(s.ivec)))
    [] n = "INTVECTOR.ROTATE" -> VecRotate(s, "ivec", "int")
    \* an empty vector is created when the stack is empty (documented), then the integer is added
    \* unless already present
    [] n = "INTVECTOR.SET*INSERT" ->
         LET s0 == IF Has(s, "ivec", 1) THEN s ELSE PushOn(s, "ivec", <<>>) IN
         IF ~Has(s0, "int", 1) THEN Res(s0, ~Has(s, "ivec", 1), <<>>)
         ELSE LET v == s0.ivec[1]
                  x == s0.int[1]
              IN Fired(SetF(PopN(s0, "int", 1), "ivec",
                            <<IF Contains(v, x) THEN v ELSE v \o <<x>> >> \o Tail(s0.ivec)))
    [] n = "INTVECTOR.SORT*ASC"  -> VecSort(s, "ivec", FALSE)
    [] n = "INTVECTOR.SORT*DESC" -> VecSort(s, "ivec", TRUE)
    [] n = "INTVECTOR.SUM" -> IF ~Has(s, "ivec", 1) THEN Unfired(s)
                              ELSE LET sm == IntSumE(s.ivec[1], 0) IN
                                   PushIntRes(s, IF sm.ok THEN <<TRUE, sm.v>> ELSE <<FALSE, 0>>)
    [] n = "FLOATVECTOR.+" -> ElementWise(s, "fvec", LAMBDA a, b : OfFRes(FAdd(a, b)))
    [] n = "FLOATVECTOR.-" -> ElementWise(s, "fvec", LAMBDA a, b : OfFRes(FSub(a, b)))
    [] n = "FLOATVECTOR.*" -> ElementWise(s, "fvec", LAMBDA a, b : OfFRes(FMul(a, b)))
    [] n = "FLOATVECTOR./" -> FloatVecDiv(s)
    \* scalar popped first; every element of the top vector is multiplied by it
    [] n = "FLOATVECTOR.*SCALAR" ->
         IF ~Has(s, "float", 1) THEN Unfired(s)
         ELSE LET s1 == PopN(s, "float", 1) IN
              IF ~Has(s, "fvec", 1) THEN Unfired(s1)
              ELSE LET v == s.fvec[1]
                       r == [j \in 1..Len(v) |-> OfFRes(FMul(v[j], s.float[1]))]
                       bad == SelectSeq([j \in 1..Len(v) |-> [j |-> j, ok |-> r[j].ok, c |-> r[j].c]], LAMBDA h : ~h.ok)
                   IN FiredH(SetF(s1, "fvec", <<[j \in 1..Len(v) |-> r[j].v]>> \o Tail(s.fvec)),
                             [k \in 1..Len(bad) |-> Hole(<<"fvec", 1, bad[k].j>>, bad[k].c)])
    [] n = "FLOATVECTOR.APPEND" -> VecAppend(s, "fvec", "float")
    [] n = "FLOATVECTOR.EMPTY"  -> Fired(PushOn(s, "fvec", <<>>))
    [] n = "FLOATVECTOR.EQUAL"  -> Bin(s, "fvec", LAMBDA r, a, b : PushBool(r, VecFEq(a, b)))
    [] n = "FLOATVECTOR.GET"    -> VecGet(s, "fvec", "float")
    [] n = "FLOATVECTOR.SET"    -> VecSet(s, "fvec", "float")
    [] n = "FLOATVECTOR.LENGTH" -> IF Has(s, "fvec", 1) THEN Fired(PushOn(s, "int", Len(s.fvec[1]))) ELSE Unfired(s)
    [] n = "FLOATVECTOR.MEAN" -> IF ~Has(s, "fvec", 1) THEN Unfired(s)
                                 ELSE LET sm == FloatSum(s.fvec[1]) IN
                                      \* (the sign of a zero sum, hence of a zero mean, is not pinned)
                                      IF sm.t = "v" /\ FIsZero(sm.b) /\ Len(s.fvec[1]) > 0 THEN PushFloatSum(s, sm)
                                      ELSE IF sm.t = "v" THEN PushFloatRes(s, FDiv(sm.b, FFromInt(Len(s.fvec[1]))))
                                      ELSE PushFloatRes(s, sm)
    [] n = "FLOATVECTOR.ONES"   -> VecConst(s, "fvec", FOne)
    [] n = "FLOATVECTOR.ZEROS"  -> VecConst(s, "fvec", FPosZero)
    [] n = "FLOATVECTOR.ROTATE" -> VecRotate(s, "fvec", "float")
    \* three floats popped (all or nothing: amplitude on top, angle velocity, phase), then the length;
    \* a vector of that many samples (none for a non-positive length); sample values are not modelled
    [] n = "FLOATVECTOR.SINE" ->
         IF ~Has(s, "float", 3) THEN Unfired(s)
         ELSE LET s1 == PopN(s, "float", 3) IN
              IF ~Has(s, "int", 1) THEN Unfired(s1)
              ELSE LET len == Max2(s.int[1], 0) IN
                   FiredH(PushOn(PopN(s1, "int", 1), "fvec", <<>>), <<HoleAB(<<"fvec", 1>>, "len", len, 0)>>)
    [] n = "FLOATVECTOR.SORT*ASC"  -> VecSort(s, "fvec", FALSE)
    [] n = "FLOATVECTOR.SORT*DESC" -> VecSort(s, "fvec", TRUE)
    [] n = "FLOATVECTOR.SUM" -> IF Has(s, "fvec", 1) THEN PushFloatSum(s, FloatSum(s.fvec[1])) ELSE Unfired(s)
=============================================================================
