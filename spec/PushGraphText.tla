--------------------------- MODULE PushGraphText ---------------------------
(***************************************************************************)
(* The textual forms of graph memory: GRAPH.PRINT (Display of a graph) and *)
(* GRAPH.PRINT*DIFF (Graph::diff).  The implementation iterates hash maps, *)
(* so the order of nodes and of destination groups is unspecified; what is *)
(* specified is                                                            *)
(*   - the header lines with the node / edge (change) counts,              *)
(*   - the exact text of every line,                                       *)
(*   - one line per edge (the order of the lines is not specified),         *)
(*   - in a diff: removals before additions and changes.                   *)
(* A text is judged by splitting it at line breaks (TextOK / DiffTextOK),  *)
(* never by enumerating permutations, so graphs of any size are decided.   *)
(* Weights print like Rust's `f32::to_string` (shortest form that reads    *)
(* back); this is specified exactly for zero, infinities, NaN and dyadic   *)
(* rationals of at most seven significant digits (ShortFloat); a line with *)
(* any other weight is specified up to the weight.                         *)
(***************************************************************************)
EXTENDS PushGraph

NL == "\n"
\* ---- Rust's f32 Display
ShortPrintable(b) == ~FIsFinite(b) \/ FIsZero(b) \/
                     LET d == FDecode(b) IN
                     \/ (d.e >= 0 /\ BitLen(d.m) + d.e <= 23 /\ d.m * 2^d.e < 10000000)
                     \/ (d.e < 0 /\ d.e >= -4 /\ d.m < 16000)          \* below 1000, at most four decimals
RECURSIVE PadTo(_, _)
PadTo(str, k) == IF Len(str) >= k THEN str ELSE PadTo("0" \o str, k)
ShortFloat(b) ==
  IF FIsNaN(b) THEN "NaN"
  ELSE IF FIsInf(b) THEN (IF FNegBit(b) THEN "-inf" ELSE "inf")
  ELSE LET sign == IF FNegBit(b) THEN "-" ELSE "" IN
       IF FIsZero(b) THEN sign \o "0"
       ELSE LET d == FDecode(b) IN
            IF d.e >= 0 THEN sign \o ToString(d.m * 2^d.e)
            ELSE LET k == -d.e
                     ip == d.m \div 2^k
                     r  == d.m % 2^k           \* odd, so r * 5^k has exactly the significant decimals
                 IN sign \o ToString(ip) \o "." \o PadTo(ToString(r * 5^k), k)

\* ---- "{:.p}" of a float for p in {1, 3}: exact for non-finite values, zeros and small dyadics
RECURSIVE Pow10(_)
Pow10(p) == IF p = 0 THEN 1 ELSE 10 * Pow10(p - 1)
FixedFloat(b, p) ==
  IF FIsNaN(b) THEN "NaN"
  ELSE IF FIsInf(b) THEN (IF FNegBit(b) THEN "-inf" ELSE "inf")
  ELSE LET sign == IF FNegBit(b) THEN "-" ELSE ""
           zeros == SubSeq("000000", 1, p) IN
       IF FIsZero(b) THEN sign \o "0." \o zeros
       ELSE LET d == FDecode(b) IN
            IF d.e >= 0 THEN sign \o ToString(d.m * 2^d.e) \o "." \o zeros
            ELSE LET k == -d.e
                     num == d.m * Pow10(p)
                     q == num \div 2^k
                     r == num % 2^k
                     half == 2^(k - 1)
                     n == IF r > half \/ (r = half /\ q % 2 = 1) THEN q + 1 ELSE q
                 IN sign \o ToString(n \div Pow10(p)) \o "." \o PadTo(ToString(n % Pow10(p)), p)

\* ---- lines: [txt, exact]; an inexact line is specified up to its prefix txt
ExactLine(t)  == [txt |-> t, exact |-> TRUE]
PrefixLine(t) == [txt |-> t, exact |-> FALSE]
LineOK(actual, exp) == IF exp.exact THEN actual = exp.txt
                       ELSE Len(actual) >= Len(exp.txt) /\ SubSeq(actual, 1, Len(exp.txt)) = exp.txt
NodeText(n) == "N[ID: " \o ToString(n.id) \o ", STATE: " \o ToString(n.st) \o "]"
EdgeBody(e) == IF ShortPrintable(e.w) THEN ExactLine("[ONID: " \o ToString(e.o) \o ", WEIGHT: " \o ShortFloat(e.w) \o "]")
               ELSE PrefixLine("[ONID: " \o ToString(e.o) \o ", WEIGHT: ")
EdgeLine(sign, d, e) == LET b == EdgeBody(e) IN
                        [txt |-> sign \o "E[" \o ToString(d) \o " <= " \o b.txt \o (IF b.exact THEN "]" ELSE ""), exact |-> b.exact]

\* ---- splitting
RECURSIVE SplitAt(_, _, _, _)
SplitAt(str, i, from, sep) ==      \* pieces of str from position `from`, cut at every character sep
  IF i > Len(str) THEN <<SubSeq(str, from, Len(str))>>
  ELSE IF SubSeq(str, i, i) = sep THEN <<SubSeq(str, from, i - 1)>> \o SplitAt(str, i + 1, i + 1, sep)
  ELSE SplitAt(str, i + 1, from, sep)
Lines(str) == SplitAt(str, 1, 1, NL)
EndsWith(str, suf) == Len(str) >= Len(suf) /\ SubSeq(str, Len(str) - Len(suf) + 1, Len(str)) = suf
DropEnd(str, k) == SubSeq(str, 1, Len(str) - k)
\* a block of lines, every one but the last followed by the separator
Unsep(block, sep) == [i \in 1..Len(block) |-> IF i < Len(block) /\ EndsWith(block[i], sep) THEN DropEnd(block[i], Len(sep)) ELSE block[i]]
SepOK(block, sep) == \A i \in 1..(Len(block) - 1) : EndsWith(block[i], sep)

\* every group (a sequence of expected lines) occurs contiguously and in order; the groups cover the block
GroupAt(block, g, p) == p + Len(g) - 1 <= Len(block) /\ \A i \in 1..Len(g) : LineOK(block[p + i - 1], g[i])
Grouped(block, groups) ==
  /\ Len(block) = SumSeq([i \in 1..Len(groups) |-> Len(groups[i])])
  /\ \A i \in 1..Len(groups) : groups[i] = <<>> \/ \E p \in 1..Len(block) : GroupAt(block, groups[i], p)
  \* distinct groups do not share a place (expected lines may repeat only in a corrupted graph)
  /\ \A i, j \in 1..Len(groups) : (i < j /\ groups[i] # <<>> /\ groups[j] # <<>> /\ groups[i] # groups[j]) =>
        \A p \in 1..Len(block) : ~(GroupAt(block, groups[i], p) /\ GroupAt(block, groups[j], p))

\* ---- GRAPH.PRINT
NodeGroups(g) == [i \in 1..Len(g.nodes) |-> <<ExactLine(NodeText(g.nodes[i]))>>]
\* one group per edge: the order of the incoming-edge list is not part of the graph value
AllEdges(g) == FlatSeq([i \in 1..Len(g.edges) |-> [j \in 1..Len(g.edges[i]["in"]) |-> [d |-> g.edges[i].d, e |-> g.edges[i]["in"][j]]]])
EdgeGroups(g, sign) == [i \in 1..Len(AllEdges(g)) |-> <<EdgeLine(sign, AllEdges(g)[i].d, AllEdges(g)[i].e)>>]
TextOK(str, g) ==
  LET ls == Lines(str)
      n  == Len(g.nodes)
      m  == EdgeCount(g)
  IN /\ Len(ls) = 3 + n + m
     /\ ls[1] = ""
     /\ ls[2] = "NODES(" \o ToString(n) \o "): "
     /\ ls[3 + n] = "EDGES(" \o ToString(m) \o "): "
     /\ LET nb == SubSeq(ls, 3, 2 + n)
            eb == SubSeq(ls, 4 + n, 3 + n + m)
        IN /\ SepOK(nb, ", ") /\ Grouped(Unsep(nb, ", "), NodeGroups(g))
           /\ SepOK(eb, ", ") /\ Grouped(Unsep(eb, ", "), EdgeGroups(g, ""))

\* ---- GRAPH.PRINT*DIFF: the changes that turn `a` (older) into `b` (newer)
NodeOf(g, id) == g.nodes[NodeIdx(g, id)]
RemovedNodes(a, b) == SelectSeq(a.nodes, LAMBDA n : ~HasNode(b, n.id))
AddedOrChangedNodes(a, b) ==
  SelectSeq(b.nodes, LAMBDA n : ~HasNode(a, n.id) \/ StateOf(a, n.id) # n.st)
NodeDiffLine(a, n) ==
  IF ~HasNode(a, n.id) THEN ExactLine("+" \o NodeText(n))
  ELSE ExactLine("~N[ID: " \o ToString(n.id) \o ", " \o ToString(StateOf(a, n.id)) \o " <= STATE => " \o ToString(n.st) \o "]")
\* edges of `a` that `b` does not have (one group per edge)
RemovedEdgeGroups(a, b) ==
  LET gone == SelectSeq(AllEdges(a), LAMBDA x : ~HasEdge(b, x.e.o, x.d))
  IN [j \in 1..Len(gone) |-> <<EdgeLine("-", gone[j].d, gone[j].e)>>]
ChangeLine(a, d, e) ==      \* edge e of b into d, present in a with another weight
  LET lw == WeightOf(a, e.o, d) IN
  IF ShortPrintable(lw) /\ ShortPrintable(e.w)
  THEN ExactLine("~E[" \o ToString(d) \o " <= [ONID: " \o ToString(e.o) \o ", " \o ShortFloat(lw) \o " <= WEIGHT => " \o ShortFloat(e.w) \o "]]")
  ELSE PrefixLine("~E[" \o ToString(d) \o " <= [ONID: " \o ToString(e.o) \o ", ")
AddedEdgeGroups(a, b) ==
  LET ch == SelectSeq(AllEdges(b), LAMBDA x : ~HasEdge(a, x.e.o, x.d) \/ FNe(WeightOf(a, x.e.o, x.d), x.e.w))
  IN [j \in 1..Len(ch) |-> <<IF HasEdge(a, ch[j].e.o, ch[j].d) THEN ChangeLine(a, ch[j].d, ch[j].e) ELSE EdgeLine("+", ch[j].d, ch[j].e)>>]
GroupsLen(gs) == SumSeq([i \in 1..Len(gs) |-> Len(gs[i])])
DiffTextOK(str, a, b) ==
  LET ls  == Lines(str)
      rn  == RemovedNodes(a, b)
      an  == AddedOrChangedNodes(a, b)
      reg == RemovedEdgeGroups(a, b)
      aeg == AddedEdgeGroups(a, b)
      k   == Len(rn) + Len(an)
      j   == GroupsLen(reg) + GroupsLen(aeg)
  IN /\ Len(ls) = 3 + k + j
     /\ ls[1] = ""
     /\ ls[2] = "NODES(" \o ToString(k) \o "):"
     /\ ls[3 + k] = "EDGES(" \o ToString(j) \o "):"
     /\ LET nb == SubSeq(ls, 3, 2 + k)
            eb == SubSeq(ls, 4 + k, 3 + k + j)
            un == Unsep(nb, ",")
            ue == Unsep(eb, ",")
        IN /\ SepOK(nb, ",") /\ SepOK(eb, ",")
           /\ Grouped(SubSeq(un, 1, Len(rn)), [i \in 1..Len(rn) |-> <<ExactLine("-" \o NodeText(rn[i]))>>])
           /\ Grouped(SubSeq(un, Len(rn) + 1, k), [i \in 1..Len(an) |-> <<NodeDiffLine(a, an[i])>>])
           /\ Grouped(SubSeq(ue, 1, GroupsLen(reg)), reg)
           /\ Grouped(SubSeq(ue, GroupsLen(reg) + 1, j), aeg)
=============================================================================
