---------------------------- MODULE PushStackOps ----------------------------
(***************************************************************************)
(* The stack-manipulation family: ONE generic definition per operation,    *)
(* instantiated for each of the nine typed stacks (property C05), plus     *)
(* the per-type DEFINE / ID / STACKDEPTH / FLUSH / POP members.            *)
(***************************************************************************)
EXTENDS PushState

\* instruction-name prefix -> state field
TypePrefix == ("BOOLEAN" :> "bool") @@ ("INTEGER" :> "int") @@ ("FLOAT" :> "float") @@ ("NAME" :> "name") @@
               ("CODE" :> "code") @@ ("EXEC" :> "exec") @@ ("BOOLVECTOR" :> "bvec") @@
               ("INTVECTOR" :> "ivec") @@ ("FLOATVECTOR" :> "fvec")
NineTypes == DOMAIN TypePrefix
StackId == ("BOOLEAN" :> 1) @@ ("BOOLVECTOR" :> 2) @@ ("CODE" :> 3) @@ ("EXEC" :> 4) @@ ("FLOAT" :> 5) @@
           ("FLOATVECTOR" :> 6) @@ ("INTEGER" :> 9) @@ ("INTVECTOR" :> 10) @@ ("NAME" :> 11)

\* position maps on a top-first sequence; i is a 0-based position already clamped into the stack
YankSeq(stk, i)    == IF i = 0 \/ stk = <<>> THEN stk ELSE <<stk[i + 1]>> \o RemoveAt(stk, i + 1)
ShoveSeq(stk, i)   == IF i = 0 \/ stk = <<>> THEN stk ELSE InsertAt(Tail(stk), i + 1, Head(stk))
YankDupSeq(stk, i) == IF stk = <<>> THEN stk ELSE <<stk[i + 1]>> \o stk

Dup(s, f)   == IF Has(s, f, 1) THEN Fired(PushOn(s, f, s[f][1])) ELSE Unfired(s)
Pop(s, f)   == IF Has(s, f, 1) THEN Fired(PopN(s, f, 1)) ELSE Unfired(s)
Flush(s, f) == Fired(SetF(s, f, <<>>))
Swap(s, f)  == IF Has(s, f, 2) THEN Fired(SetF(s, f, ShoveSeq(s[f], 1))) ELSE Unfired(s)
Rot(s, f)   == IF Has(s, f, 3) THEN Fired(SetF(s, f, YankSeq(s[f], 2))) ELSE Unfired(s)

\* the index is taken from the INTEGER stack FIRST, then clamped into the remaining stack
Indexed(s, f, Op(_, _)) ==
  IF ~Has(s, "int", 1) THEN Unfired(s)
  ELSE LET s1 == PopN(s, "int", 1)
           n  == Len(s1[f])
       IN Res(SetF(s1, f, Op(s1[f], Clamp(s.int[1], n))), n > 0, <<>>)
Yank(s, f)    == Indexed(s, f, YankSeq)
Shove(s, f)   == Indexed(s, f, ShoveSeq)
YankDup(s, f) == Indexed(s, f, YankDupSeq)

StackDepth(s, f) == Fired(PushOn(s, "int", Len(s[f]) + (IF f = "int" THEN 1 ELSE 0)))
PushId(s, T)     == Fired(PushOn(s, "int", StackId[T]))

\* how a stack element becomes a code item (for DEFINE, CODE.FROM*, LIST records)
AsItem(f, x) == CASE f = "bool" -> IBool(x) [] f = "int" -> IInt(x) [] f = "float" -> IFloat(x)
                  [] f = "name" -> IId(x) [] f = "bvec" -> IBVec(x) [] f = "ivec" -> IIVec(x)
                  [] f = "fvec" -> IFVec(x) [] OTHER -> x
BindSet(b, n, it) == [m \in (DOMAIN b) \cup {n} |-> IF m = n THEN it ELSE b[m]]

\* T.DEFINE: the name is popped first; the value second (name consumed if the value is missing)
Define(s, f) ==
  IF ~Has(s, "name", 1) THEN Unfired(s)
  ELSE LET s1 == PopN(s, "name", 1) IN
       IF ~Has(s1, f, 1) THEN Unfired(s1)
       ELSE Fired([PopN(s1, f, 1) EXCEPT !.bind = BindSet(@, s.name[1], AsItem(f, s1[f][1]))])

GenericOps == {"DUP", "POP", "FLUSH", "SWAP", "ROT", "YANK", "YANKDUP", "SHOVE", "STACKDEPTH",
               "ID", "DEFINE"}
\* which (type, op) pairs are registered
HasOp(T, op) ==
  CASE op = "ROT"    -> T \in {"BOOLEAN", "INTEGER", "FLOAT", "NAME", "CODE", "EXEC"}
    [] op = "DEFINE" -> T # "NAME"
    [] OTHER         -> TRUE
StackOpPairs   == {p \in NineTypes \X GenericOps : HasOp(p[1], p[2])}
StackOpName(p) == p[1] \o "." \o p[2]
StackOpNames   == {StackOpName(p) : p \in StackOpPairs}
StackOpOf      == [n \in StackOpNames |-> CHOOSE p \in StackOpPairs : StackOpName(p) = n]

ApplyStackOp(T, op, s) ==
  LET f == TypePrefix[T] IN
  CASE op = "DUP"        -> Dup(s, f)
    [] op = "POP"        -> Pop(s, f)
    [] op = "FLUSH"      -> Flush(s, f)
    [] op = "SWAP"       -> Swap(s, f)
    [] op = "ROT"        -> Rot(s, f)
    [] op = "YANK"       -> Yank(s, f)
    [] op = "YANKDUP"    -> YankDup(s, f)
    [] op = "SHOVE"      -> Shove(s, f)
    [] op = "STACKDEPTH" -> StackDepth(s, f)
    [] op = "ID"         -> PushId(s, T)
    [] op = "DEFINE"     -> Define(s, f)
=============================================================================
