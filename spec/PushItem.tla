------------------------------ MODULE PushItem ------------------------------
(***************************************************************************)
(* Code items (trees).  An item is a record [k, v]:                        *)
(*   k = "int" | "float" | "bool" | "ins" | "id" | "list"                  *)
(*     | "bvec" | "ivec" | "fvec" | "index" | "graph"                      *)
(* A list's v is the sequence of its elements, FIRST element first (the    *)
(* first element is the one printed first and executed first; it is the    *)
(* top of the PushStack that implements the list).                         *)
(* The depth-first list of sub-items, Points(t), is the definitional       *)
(* anchor of every "point index" in the CODE instructions.                 *)
(***************************************************************************)
EXTENDS PushBase

IInt(x)   == [k |-> "int",   v |-> x]
IFloat(b) == [k |-> "float", v |-> b]
IBool(b)  == [k |-> "bool",  v |-> b]
IIns(n)   == [k |-> "ins",   v |-> n]
IId(n)    == [k |-> "id",    v |-> n]
IList(s)  == [k |-> "list",  v |-> s]
IBVec(s)  == [k |-> "bvec",  v |-> s]
IIVec(s)  == [k |-> "ivec",  v |-> s]
IFVec(s)  == [k |-> "fvec",  v |-> s]
IIndex(x) == [k |-> "index", v |-> x]
IGraph(g) == [k |-> "graph", v |-> g]
EmptyList == IList(<<>>)

LiteralKinds == {"int", "float", "bool", "bvec", "ivec", "fvec", "index", "graph"}
IsList(t)    == t.k = "list"
IsLiteral(t) == t.k \in LiteralKinds
IsAtom(t)    == t.k # "list"

RECURSIVE Size(_)
Size(t) == IF t.k = "list" THEN 1 + SumSeq([i \in 1..Len(t.v) |-> Size(t.v[i])]) ELSE 1

RECURSIVE Points(_)
Points(t) == <<t>> \o (IF t.k = "list" THEN FlatSeq([i \in 1..Len(t.v) |-> Points(t.v[i])]) ELSE <<>>)

RECURSIVE Depth(_)
Depth(t) == IF t.k = "list" /\ t.v # <<>>
            THEN 1 + CHOOSE d \in {Depth(t.v[i]) : i \in 1..Len(t.v)} :
                        \A j \in 1..Len(t.v) : Depth(t.v[j]) <= d
            ELSE IF t.k = "list" THEN 1 ELSE 0

\* the i-th point (0-based) in depth-first order; requires 0 <= i < Size(t)
Extract(t, i) == Points(t)[i + 1]

\* t with its i-th point (0-based, depth-first) replaced by u; unchanged when i >= Size(t)
RECURSIVE InsertPt(_, _, _)
RECURSIVE InsertKids(_, _, _)
InsertKids(kids, u, j) ==
  IF kids = <<>> THEN kids
  ELSE LET s == Size(Head(kids)) IN
       IF j < s THEN <<InsertPt(Head(kids), u, j)>> \o Tail(kids)
       ELSE <<Head(kids)>> \o InsertKids(Tail(kids), u, j - s)
InsertPt(t, u, i) ==
  IF i = 0 THEN u
  ELSE IF t.k = "list" THEN [t EXCEPT !.v = InsertKids(t.v, u, i - 1)]
  ELSE t

\* structural ("deep") equality as the interpreter means it: floats compare by IEEE ==
RECURSIVE DeepEq(_, _)
DeepEq(a, b) ==
  IF a.k # b.k THEN FALSE
  ELSE IF a.k = "list" THEN Len(a.v) = Len(b.v) /\ \A i \in 1..Len(a.v) : DeepEq(a.v[i], b.v[i])
  ELSE IF a.k = "float" THEN FEq(a.v, b.v)
  ELSE IF a.k = "fvec" THEN Len(a.v) = Len(b.v) /\ \A i \in 1..Len(a.v) : FEq(a.v[i], b.v[i])
  ELSE a.v = b.v

\* "shallow" equality: same kind of item, values ignored
ShallowEq(a, b) == a.k = b.k

\* the items of t that satisfy the test, in depth-first order
SelectPoints(t, Test(_)) ==
  LET ps == Points(t) IN [j \in 1..Len(SelectIdx(ps, Test, 1)) |-> ps[SelectIdx(ps, Test, 1)[j]]]

\* first position (0-based) of a point deep-equal to u, or -1
Position(t, u) ==
  LET ps == Points(t)
      hits == SelectIdx(ps, LAMBDA p : DeepEq(p, u), 1)
  IN IF hits = <<>> THEN -1 ELSE hits[1] - 1

\* all positions (0-based, ascending) of points deep-equal to u
AllPositions(t, u) == LET hits == SelectIdx(Points(t), LAMBDA p : DeepEq(p, u), 1) IN [j \in 1..Len(hits) |-> hits[j] - 1]

Occurs(t, u) == Position(t, u) >= 0

\* the innermost list of t that directly holds an element deep-equal to u (first in depth-first
\* order), or "none" (as a record so that callers can test the tag)
RECURSIVE ContainerOf(_, _)
RECURSIVE ContainerKids(_, _, _)
ContainerKids(t, u, i) ==
  \* scan the elements of list t from i: an element equal to u makes t the container; otherwise
  \* look inside the element first (depth-first order)
  IF i > Len(t.v) THEN [found |-> FALSE, item |-> EmptyList]
  ELSE IF DeepEq(t.v[i], u) THEN [found |-> TRUE, item |-> t]
  ELSE LET inner == ContainerOf(t.v[i], u) IN
       IF inner.found THEN inner ELSE ContainerKids(t, u, i + 1)
ContainerOf(t, u) ==
  IF t.k = "list" /\ ~DeepEq(t, u) THEN ContainerKids(t, u, 1)
  ELSE [found |-> FALSE, item |-> EmptyList]

\* t with every sub-item deep-equal to p replaced by s (the replaced item is not searched again)
RECURSIVE Subst(_, _, _)
Subst(t, p, s) ==
  IF DeepEq(t, p) THEN s
  ELSE IF t.k = "list" THEN [t EXCEPT !.v = [i \in 1..Len(t.v) |-> Subst(t.v[i], p, s)]]
  ELSE t

\* n-th (0-based) point of t of kind kd, in depth-first order, or "none"
NthOfKind(t, kd, n) ==
  LET hits == SelectIdx(Points(t), LAMBDA p : p.k = kd, 1)
  IN IF n >= 0 /\ n < Len(hits) THEN [found |-> TRUE, item |-> Points(t)[hits[n + 1]]]
     ELSE [found |-> FALSE, item |-> EmptyList]

\* multiset of atoms of an item, as a sequence in depth-first order (used by conservation laws)
Atoms(t) == SelectPoints(t, LAMBDA p : p.k # "list")

\* does the item contain a value whose printed form is not modelled exactly (arbitrary floats),
\* or an identifier that is not a single plain token?
---------------------------------------------------------------------------
(* printing (Display of Item / PushStack<Item>): exact for everything except floats *)
RECURSIVE JoinStr(_, _)
JoinStr(ss, sep) == IF ss = <<>> THEN "" ELSE IF Len(ss) = 1 THEN ss[1]
                    ELSE ss[1] \o sep \o JoinStr(Tail(ss), sep)
BoolStr(b) == IF b THEN "TRUE" ELSE "FALSE"
\* "{:.3}" of a float: exact (round half to even on the exact value) for non-finite values, zeros and
\* small dyadics; other floats are not modelled ("not printable")
\* (a negative value that prints as zero, -0.0 included, is not modelled either: "-0.000" and "0.000" both read back as zero)
FPrintable(b) == ~FIsFinite(b) \/ (FIsZero(b) /\ ~FNegBit(b)) \/
                 (~FIsZero(b) /\ LET d == FDecode(b) IN d.m < 4096 /\ d.e >= -20 /\ (d.e <= 0 \/ BitLen(d.m) + d.e <= 20)
                                                     /\ (~FNegBit(b) \/ d.e >= 0 \/ (d.m * 1000) \div 2^(-d.e) >= 1))
Pad3(n) == IF n < 10 THEN "00" \o ToString(n) ELSE IF n < 100 THEN "0" \o ToString(n) ELSE ToString(n)
PrintFloat(b) ==
  IF FIsNaN(b) THEN "NaN"
  ELSE IF FIsInf(b) THEN (IF FNegBit(b) THEN "-inf" ELSE "inf")
  ELSE LET sign == IF FNegBit(b) THEN "-" ELSE "" IN
       IF FIsZero(b) THEN sign \o "0.000"
       ELSE LET d == FDecode(b) IN
            IF d.e >= 0 THEN sign \o ToString(d.m * 2^d.e) \o ".000"
            ELSE LET k == -d.e
                     num == d.m * 1000
                     q == num \div 2^k
                     r == num % 2^k
                     half == 2^(k - 1)
                     n == IF r > half \/ (r = half /\ q % 2 = 1) THEN q + 1 ELSE q
                 IN sign \o ToString(n \div 1000) \o "." \o Pad3(n % 1000)
RECURSIVE PrintItem(_)
PrintItem(t) ==
  CASE t.k = "int"  -> ToString(t.v)
    [] t.k = "bool" -> BoolStr(t.v)
    [] t.k \in {"ins", "id"} -> t.v
    [] t.k = "list" -> "( " \o JoinStr([i \in 1..Len(t.v) |-> PrintItem(t.v[i])], " ") \o " )"
    [] t.k = "bvec" -> "[" \o JoinStr([i \in 1..Len(t.v) |-> BoolStr(t.v[i])], ",") \o "]"
    [] t.k = "ivec" -> "[" \o JoinStr([i \in 1..Len(t.v) |-> ToString(t.v[i])], ",") \o "]"
    [] t.k = "float" -> PrintFloat(t.v)
    [] t.k = "fvec" -> "[" \o JoinStr([i \in 1..Len(t.v) |-> PrintFloat(t.v[i])], ",") \o "]"
    [] OTHER -> "?"
\* a whole stack of items, top first, blank separated
PrintItems(stk) == JoinStr([i \in 1..Len(stk) |-> PrintItem(stk[i])], " ")

RECURSIVE HasSpace(_, _)
HasSpace(str, i) == IF i > Len(str) THEN FALSE
                    ELSE IF SubSeq(str, i, i) = " " THEN TRUE ELSE HasSpace(str, i + 1)
LowerCase == {"a","b","c","d","e","f","g","h","i","j","k","l","m","n","o","p","q","r","s","t","u","v","w","x","y","z"}
\* a name that cannot be confused with the printed form of any other kind of token
PlainName(n) == Len(n) > 0 /\ SubSeq(n, 1, 1) \in LowerCase /\ ~HasSpace(n, 1)
\* print-fuzzy: the item contains something whose printed form the specification does not model
Fuzzy(t) == \E i \in 1..Len(Points(t)) :
              LET p == Points(t)[i] IN
              \/ p.k \in {"graph", "index"}
              \/ (p.k = "float" /\ ~FPrintable(p.v))
              \/ (p.k = "fvec" /\ \E j \in 1..Len(p.v) : ~FPrintable(p.v[j]))
              \/ (p.k = "id" /\ ~PlainName(p.v))
              \/ (p.k = "ins" /\ HasSpace(p.v, 1))
\* structure-fuzzy: the item contains values whose equality the specification does not model
StructFuzzy(t) == \E i \in 1..Len(Points(t)) : Points(t)[i].k \in {"graph", "index"}
HasFloat(t) == \E i \in 1..Len(Points(t)) : Points(t)[i].k \in {"float", "fvec"}
\* ( n ( n-1 ( ... ( 1 leaf ) ... ) ) ): the tree nested n levels that the harness builds where an event could not carry it
RECURSIVE DeepItem(_, _)
DeepItem(n, leaf) == IF n = 0 THEN IInt(leaf) ELSE IList(<<IInt(n), DeepItem(n - 1, leaf)>>)
=============================================================================
