----------------------------- MODULE PushScalar -----------------------------
(***************************************************************************)
(* BOOLEAN, INTEGER, FLOAT and NAME arithmetic, logic, comparison,         *)
(* min/max, trigonometric and conversion instructions (property C04).      *)
(* The SECOND stack item is the LEFT operand.  A zero divisor consumes     *)
(* the operands and pushes nothing.  Where the mathematical result is not  *)
(* representable the value is left open (a hole) but the shape is exact.   *)
(***************************************************************************)
EXTENDS PushStackOps

\* binary instruction on one stack f: a = second item (left), b = top (right)
Bin(s, f, Op(_, _, _)) ==
  IF ~Has(s, f, 2) THEN Unfired(s) ELSE Op(PopN(s, f, 2), s[f][2], s[f][1])
Un(s, f, Op(_, _)) ==
  IF ~Has(s, f, 1) THEN Unfired(s) ELSE Op(PopN(s, f, 1), s[f][1])
PushBool(s, b) == Fired(PushOn(s, "bool", b))

BoolInstr == {"BOOLEAN.=", "BOOLEAN.AND", "BOOLEAN.OR", "BOOLEAN.NOT", "BOOLEAN.FROMFLOAT",
              "BOOLEAN.FROMINTEGER"}
ApplyBool(n, s) ==
  CASE n = "BOOLEAN.="   -> Bin(s, "bool", LAMBDA r, a, b : PushBool(r, a = b))
    [] n = "BOOLEAN.AND" -> Bin(s, "bool", LAMBDA r, a, b : PushBool(r, a /\ b))
    [] n = "BOOLEAN.OR"  -> Bin(s, "bool", LAMBDA r, a, b : PushBool(r, a \/ b))
    [] n = "BOOLEAN.NOT" -> Un(s, "bool", LAMBDA r, a : PushBool(r, ~a))
    \* documented: FALSE if the top FLOAT / INTEGER is zero, TRUE otherwise; the operand stays
    [] n = "BOOLEAN.FROMFLOAT"   -> IF Has(s, "float", 1) THEN PushBool(s, ~FEq(s.float[1], FPosZero))
                                    ELSE Unfired(s)
    [] n = "BOOLEAN.FROMINTEGER" -> IF Has(s, "int", 1) THEN PushBool(s, s.int[1] # 0) ELSE Unfired(s)

IntInstr == {"INTEGER.+", "INTEGER.-", "INTEGER.*", "INTEGER./", "INTEGER.%", "INTEGER.<",
             "INTEGER.=", "INTEGER.>", "INTEGER.ABS", "INTEGER.MAX", "INTEGER.MIN", "INTEGER.DDUP",
             "INTEGER.FROMBOOLEAN", "INTEGER.FROMFLOAT"}
ApplyInt(n, s) ==
  CASE n = "INTEGER.+" -> Bin(s, "int", LAMBDA r, a, b :
                            PushIntRes(r, IF AddFits(a, b) THEN <<TRUE, a + b>> ELSE <<FALSE, 0>>))
    [] n = "INTEGER.-" -> Bin(s, "int", LAMBDA r, a, b :
                            PushIntRes(r, IF SubFits(a, b) THEN <<TRUE, a - b>> ELSE <<FALSE, 0>>))
    [] n = "INTEGER.*" -> Bin(s, "int", LAMBDA r, a, b :
                            PushIntRes(r, IF MulFits(a, b) THEN <<TRUE, a * b>> ELSE <<FALSE, 0>>))
    [] n = "INTEGER./" -> Bin(s, "int", LAMBDA r, a, b :
                            IF b = 0 THEN Unfired(r)
                            ELSE PushIntRes(r, IF DivFits(a, b) THEN <<TRUE, TruncDiv(a, b)>> ELSE <<FALSE, 0>>))
    \* documented: remainder of the quotient truncated toward negative infinity (floored modulo)
    [] n = "INTEGER.%" -> Bin(s, "int", LAMBDA r, a, b :
                            IF b = 0 THEN Unfired(r)
                            ELSE PushIntRes(r, IF DivFits(a, b) THEN <<TRUE, FloorRem(a, b)>> ELSE <<TRUE, 0>>))
    [] n = "INTEGER.<" -> Bin(s, "int", LAMBDA r, a, b : PushBool(r, a < b))
    [] n = "INTEGER.=" -> Bin(s, "int", LAMBDA r, a, b : PushBool(r, a = b))
    [] n = "INTEGER.>" -> Bin(s, "int", LAMBDA r, a, b : PushBool(r, a > b))
    [] n = "INTEGER.MAX" -> Bin(s, "int", LAMBDA r, a, b : Fired(PushOn(r, "int", Max2(a, b))))
    [] n = "INTEGER.MIN" -> Bin(s, "int", LAMBDA r, a, b : Fired(PushOn(r, "int", Min2(a, b))))
    [] n = "INTEGER.ABS" -> Un(s, "int", LAMBDA r, a :
                            PushIntRes(r, IF NegFits(a) THEN <<TRUE, Abs(a)>> ELSE <<FALSE, 0>>))
    \* duplicates the two top items preserving their order; the operands stay
    [] n = "INTEGER.DDUP" -> IF Has(s, "int", 2) THEN Fired(SetF(s, "int", <<s.int[1], s.int[2]>> \o s.int))
                             ELSE Unfired(s)
    [] n = "INTEGER.FROMBOOLEAN" -> Un(s, "bool", LAMBDA r, a : Fired(PushOn(r, "int", IF a THEN 1 ELSE 0)))
    \* truncation toward zero; out of range (also NaN, infinities): any INTEGER (the implementation saturates)
    [] n = "INTEGER.FROMFLOAT"   -> Un(s, "float", LAMBDA r, a : PushIntRes(r, <<FToIntFits(a), FToInt(a)>>))

\* the float zero-divisor rule: +0.0 and -0.0 are zero divisors, NaN is not
FloatInstr == {"FLOAT.+", "FLOAT.-", "FLOAT.*", "FLOAT./", "FLOAT.%", "FLOAT.<", "FLOAT.=", "FLOAT.>",
               "FLOAT.MAX", "FLOAT.MIN", "FLOAT.COS", "FLOAT.SIN", "FLOAT.TAN", "FLOAT.EXP",
               "FLOAT.FROMBOOLEAN", "FLOAT.FROMINTEGER"}
\* transcendental functions: exact on the arguments where the mathematical value is exact,
\* some NaN for NaN / infinite arguments of the periodic functions, otherwise left open
Trig(fn, a) ==
  IF FIsNaN(a) THEN FNaNRes
  ELSE IF fn \in {"SIN", "TAN"} /\ FIsZero(a) THEN FV(a)
  ELSE IF fn = "COS" /\ FIsZero(a) THEN FV(FOne)
  ELSE IF fn = "EXP" /\ FIsZero(a) THEN FV(FOne)
  ELSE IF fn \in {"SIN", "COS", "TAN"} /\ FIsInf(a) THEN FNaNRes
  ELSE IF fn = "EXP" /\ a = FPosInf THEN FV(FPosInf)
  ELSE IF fn = "EXP" /\ a = FNegInf THEN FV(FPosZero)
  ELSE FAnyRes
ApplyFloat(n, s) ==
  CASE n = "FLOAT.+" -> Bin(s, "float", LAMBDA r, a, b : PushFloatRes(r, FAdd(a, b)))
    [] n = "FLOAT.-" -> Bin(s, "float", LAMBDA r, a, b : PushFloatRes(r, FSub(a, b)))
    [] n = "FLOAT.*" -> Bin(s, "float", LAMBDA r, a, b : PushFloatRes(r, FMul(a, b)))
    [] n = "FLOAT./" -> Bin(s, "float", LAMBDA r, a, b :
                          IF FIsZero(b) THEN Unfired(r) ELSE PushFloatRes(r, FDiv(a, b)))
    [] n = "FLOAT.%" -> Bin(s, "float", LAMBDA r, a, b :
                          IF FIsZero(b) THEN Unfired(r) ELSE PushFloatRes(r, FRem(a, b)))
    [] n = "FLOAT.<" -> Bin(s, "float", LAMBDA r, a, b : PushBool(r, FLt(a, b)))
    [] n = "FLOAT.=" -> Bin(s, "float", LAMBDA r, a, b : PushBool(r, FEq(a, b)))
    [] n = "FLOAT.>" -> Bin(s, "float", LAMBDA r, a, b : PushBool(r, FGt(a, b)))
    \* maximum / minimum of the two operands; with a NaN operand either operand may result
    [] n = "FLOAT.MAX" -> Bin(s, "float", LAMBDA r, a, b :
                          IF FIsNaN(a) \/ FIsNaN(b) \/ FEq(a, b)
                          THEN FiredH(PushOn(r, "float", a), <<HoleAB(<<"float", 1>>, "oneof", a, b)>>)
                          ELSE Fired(PushOn(r, "float", IF FGt(a, b) THEN a ELSE b)))
    [] n = "FLOAT.MIN" -> Bin(s, "float", LAMBDA r, a, b :
                          IF FIsNaN(a) \/ FIsNaN(b) \/ FEq(a, b)
                          THEN FiredH(PushOn(r, "float", a), <<HoleAB(<<"float", 1>>, "oneof", a, b)>>)
                          ELSE Fired(PushOn(r, "float", IF FGt(a, b) THEN b ELSE a)))
    [] n = "FLOAT.COS" -> Un(s, "float", LAMBDA r, a : PushFloatRes(r, Trig("COS", a)))
    [] n = "FLOAT.SIN" -> Un(s, "float", LAMBDA r, a : PushFloatRes(r, Trig("SIN", a)))
    [] n = "FLOAT.TAN" -> Un(s, "float", LAMBDA r, a : PushFloatRes(r, Trig("TAN", a)))
    [] n = "FLOAT.EXP" -> Un(s, "float", LAMBDA r, a : PushFloatRes(r, Trig("EXP", a)))
    [] n = "FLOAT.FROMBOOLEAN" -> Un(s, "bool", LAMBDA r, a : Fired(PushOn(r, "float", FFromBool(a))))
    [] n = "FLOAT.FROMINTEGER" -> Un(s, "int", LAMBDA r, a : Fired(PushOn(r, "float", FFromInt(a))))

NameInstr == {"NAME.=", "NAME.CAT", "NAME.QUOTE", "NAME.SEND"}
ApplyName(n, s) ==
  CASE n = "NAME.="   -> Bin(s, "name", LAMBDA r, a, b : PushBool(r, a = b))
    \* the top item is appended to the second one, separated by one blank
    [] n = "NAME.CAT" -> Bin(s, "name", LAMBDA r, a, b : Fired(PushOn(r, "name", a \o " " \o b)))
    [] n = "NAME.QUOTE" -> Fired(SetF(s, "quote", TRUE))
    [] n = "NAME.SEND"  -> Fired(SetF(s, "send", TRUE))

ScalarInstr == BoolInstr \cup IntInstr \cup FloatInstr \cup NameInstr
ApplyScalar(n, s) ==
  IF n \in BoolInstr THEN ApplyBool(n, s)
  ELSE IF n \in IntInstr THEN ApplyInt(n, s)
  ELSE IF n \in FloatInstr THEN ApplyFloat(n, s)
  ELSE ApplyName(n, s)
=============================================================================
