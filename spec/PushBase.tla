------------------------------ MODULE PushBase ------------------------------
(***************************************************************************)
(* Machine integers, IEEE-754 single precision floats carried as their bit *)
(* pattern (a signed 32-bit integer), and sequence helpers.  Every stack   *)
(* of the abstract state is a sequence whose element 1 is the TOP.         *)
(* TLC integers are 32-bit and raise an error on overflow, so every        *)
(* arithmetic helper decides representability before it computes.          *)
(***************************************************************************)
EXTENDS Integers, Sequences, FiniteSets, TLC

MaxInt == 2147483647
MinInt == -2147483647 - 1
Int32  == MinInt..MaxInt

---------------------------------------------------------------------------
(* sequences, top first *)
Push(s, x)   == <<x>> \o s
Drop(s, n)   == SubSeq(s, n + 1, Len(s))          \* s without its n top-most elements
Take(s, n)   == SubSeq(s, 1, n)
Last(s)      == s[Len(s)]
Front(s)     == SubSeq(s, 1, Len(s) - 1)
RECURSIVE Rev(_)
Rev(s)       == IF s = <<>> THEN <<>> ELSE Rev(Tail(s)) \o <<Head(s)>>
Range(s)     == {s[i] : i \in 1..Len(s)}
IsSuffix(t, s) == Len(t) <= Len(s) /\ t = SubSeq(s, Len(s) - Len(t) + 1, Len(s))
Min2(a, b)   == IF a < b THEN a ELSE b
Max2(a, b)   == IF a > b THEN a ELSE b
SeqOf(x, n)  == [i \in 1..n |-> x]
\* remove element at index i (1-based), insert x so that it ends at index i
RemoveAt(s, i)    == SubSeq(s, 1, i - 1) \o SubSeq(s, i + 1, Len(s))
InsertAt(s, i, x) == SubSeq(s, 1, i - 1) \o <<x>> \o SubSeq(s, i, Len(s))
ReplaceAt(s, i, x) == [s EXCEPT ![i] = x]
RECURSIVE SetAsSeq(_)
SetAsSeq(S) == IF S = {} THEN <<>> ELSE LET x == CHOOSE y \in S : TRUE IN <<x>> \o SetAsSeq(S \ {x})
RECURSIVE SumSeq(_)
SumSeq(s) == IF s = <<>> THEN 0 ELSE Head(s) + SumSeq(Tail(s))
RECURSIVE FlatSeq(_)
FlatSeq(ss) == IF ss = <<>> THEN <<>> ELSE Head(ss) \o FlatSeq(Tail(ss))
RECURSIVE SelectIdx(_, _, _)
\* indices i (ascending) of s with Test(s[i])
SelectIdx(s, Test(_), i) ==
  IF i > Len(s) THEN <<>>
  ELSE (IF Test(s[i]) THEN <<i>> ELSE <<>>) \o SelectIdx(s, Test, i + 1)

---------------------------------------------------------------------------
(* 32-bit integer arithmetic without overflowing TLC *)
AddFits(a, b) == IF b >= 0 THEN a <= MaxInt - b ELSE a >= MinInt - b
SubFits(a, b) == IF b >= 0 THEN a >= MinInt + b ELSE a <= MaxInt + b
NegFits(a)    == a # MinInt
Abs(a)        == IF a < 0 THEN -a ELSE a              \* caller guarantees a # MinInt

\* ceil(x / y) for x <= 0 < y
CeilDivNP(x, y) == IF x + y > 0 THEN 0 ELSE -((-(x + y)) \div y) - 1

MulFits(a, b) ==
  IF a = 0 \/ b = 0 THEN TRUE
  ELSE IF a > 0 /\ b > 0 THEN a <= MaxInt \div b
  ELSE IF a < 0 /\ b < 0 THEN a # MinInt /\ b # MinInt /\ (-a) <= MaxInt \div (-b)
  ELSE IF a > 0 THEN b >= CeilDivNP(MinInt, a)
  ELSE a >= CeilDivNP(MinInt, b)

DivFits(a, b) == b # 0 /\ ~(a = MinInt /\ b = -1)

\* quotient truncated toward zero (Rust's `/` on i32); requires DivFits(a, b)
TruncDiv(a, b) ==
  IF b > 0 THEN (IF a >= 0 THEN a \div b ELSE CeilDivNP(a, b))
  ELSE IF b = MinInt THEN (IF a = MinInt THEN 1 ELSE 0)
  ELSE IF a >= 0 THEN -(a \div (-b))
  ELSE -CeilDivNP(a, -b)
\* remainder with the sign of the dividend (Rust's `%`); requires DivFits(a, b)
TruncRem(a, b) == a - b * TruncDiv(a, b)
\* remainder with the sign of the divisor / non-negative for positive modulus ("floored")
FloorRem(a, b) == LET r == TruncRem(a, b) IN
                  IF r # 0 /\ ((r < 0) # (b < 0)) THEN r + b ELSE r
\* Euclidean remainder in 0..|b|-1 for b > 0 (Rust's rem_euclid with positive modulus)
EuclidRem(a, b) == a % b

\* clamp(i, n) = max(min(n-1, i), 0): the index clamp used by every indexed instruction
Clamp(i, n) == Max2(Min2(n - 1, i), 0)

RECURSIVE BitLen(_)
BitLen(m) == IF m = 0 THEN 0 ELSE 1 + BitLen(m \div 2)

---------------------------------------------------------------------------
(* IEEE-754 binary32 as bit patterns (signed 32-bit integers) *)
P23 == 8388608
P24 == 16777216
FNegBit(b) == b < 0
FMag(b)    == IF b < 0 THEN (b + MaxInt) + 1 ELSE b         \* bits without the sign
FExp(b)    == FMag(b) \div P23                                \* biased exponent 0..255
FMan(b)    == FMag(b) % P23
FIsNaN(b)  == FExp(b) = 255 /\ FMan(b) # 0
FIsInf(b)  == FExp(b) = 255 /\ FMan(b) = 0
FIsZero(b) == FMag(b) = 0
FIsFinite(b) == FExp(b) < 255
FWithSign(neg, mag) == IF neg THEN (mag - MaxInt) - 1 ELSE mag
FNeg(b)    == FWithSign(~FNegBit(b), FMag(b))
FAbs(b)    == FMag(b)
FPosZero == 0
FNegZero == MinInt
FPosInf  == 2139095040
FNegInf  == FWithSign(TRUE, 2139095040)
FQNaN    == 2143289344
FOne     == 1065353216
\* total order key on non-NaN floats (-0 and +0 share key 0)
FKey(b)    == IF b < 0 THEN -FMag(b) ELSE b
\* key of the IEEE total order (total_cmp): -NaN < -inf < ... < -0 < +0 < ... < +inf < +NaN
FTotalKey(b) == IF b < 0 THEN -FMag(b) - 1 ELSE b
FLt(a, b)  == ~FIsNaN(a) /\ ~FIsNaN(b) /\ FKey(a) < FKey(b)
FGt(a, b)  == FLt(b, a)
FEq(a, b)  == ~FIsNaN(a) /\ ~FIsNaN(b) /\ FKey(a) = FKey(b)
FNe(a, b)  == ~FEq(a, b)

\* finite non-zero float -> [neg, m, e] with value = (-1)^neg * m * 2^e, m odd
RECURSIVE StripZeros(_, _)
StripZeros(m, e) == IF m % 2 = 0 THEN StripZeros(m \div 2, e + 1) ELSE [m |-> m, e |-> e]
FDecode(b) ==
  LET raw == IF FExp(b) = 0 THEN [m |-> FMan(b), e |-> -149]
             ELSE [m |-> P23 + FMan(b), e |-> FExp(b) - 150]
      s   == StripZeros(raw.m, raw.e)
  IN [neg |-> FNegBit(b), m |-> s.m, e |-> s.e]

\* results of float arithmetic: an exact bit pattern, "some NaN", or "left open by the spec"
FV(b)   == [t |-> "v", b |-> b]
FNaNRes == [t |-> "nan", b |-> 0]
FAnyRes == [t |-> "any", b |-> 0]
\* exact encoding of (-1)^neg * m * 2^e (m > 0, m < 2^31), or FAnyRes
FEncode(neg, m0, e0) ==
  LET s == StripZeros(m0, e0)
      m == s.m
      e == s.e
      p == BitLen(m) - 1
      E == e + p
  IN IF p > 23 THEN FAnyRes
     ELSE IF E > 127 THEN FAnyRes
     ELSE IF E >= -126 THEN FV(FWithSign(neg, (E + 127) * P23 + (m - 2^p) * 2^(23 - p)))
     ELSE IF e >= -149 THEN FV(FWithSign(neg, m * 2^(e + 149)))
     ELSE FAnyRes

\* a "small" float: finite, and zero or m < 2^12 with -24 <= e <= 24: sums and products of two
\* small floats are computed exactly in 32-bit integer arithmetic below.
FSmall(b) == FIsFinite(b) /\ (FIsZero(b) \/ LET d == FDecode(b) IN d.m < 4096 /\ d.e >= -24 /\ d.e <= 24)

\* IEEE addition
FAdd(a, b) ==
  IF FIsNaN(a) \/ FIsNaN(b) THEN FNaNRes
  ELSE IF FIsInf(a) THEN (IF FIsInf(b) /\ FNegBit(a) # FNegBit(b) THEN FNaNRes ELSE FV(a))
  ELSE IF FIsInf(b) THEN FV(b)
  ELSE IF FIsZero(a) /\ FIsZero(b) THEN (IF FNegBit(a) /\ FNegBit(b) THEN FV(FNegZero) ELSE FV(FPosZero))
  ELSE IF FIsZero(a) THEN FV(b)
  ELSE IF FIsZero(b) THEN FV(a)
  ELSE IF ~(FSmall(a) /\ FSmall(b)) THEN FAnyRes
  ELSE LET x == FDecode(a)
           y == FDecode(b)
           e0 == Min2(x.e, y.e)
       IN IF x.e - e0 > 17 \/ y.e - e0 > 17 THEN FAnyRes
          ELSE LET nx == (IF x.neg THEN -1 ELSE 1) * x.m * 2^(x.e - e0)
                   ny == (IF y.neg THEN -1 ELSE 1) * y.m * 2^(y.e - e0)
                   n  == nx + ny
               IN IF n = 0 THEN FV(FPosZero)
                  ELSE FEncode(n < 0, IF n < 0 THEN -n ELSE n, e0)
FSub(a, b) == IF FIsNaN(b) THEN FNaNRes ELSE FAdd(a, FNeg(b))

FMul(a, b) ==
  IF FIsNaN(a) \/ FIsNaN(b) THEN FNaNRes
  ELSE IF (FIsInf(a) /\ FIsZero(b)) \/ (FIsZero(a) /\ FIsInf(b)) THEN FNaNRes
  ELSE IF FIsInf(a) \/ FIsInf(b) THEN FV(FWithSign(FNegBit(a) # FNegBit(b), 2139095040))
  ELSE IF FIsZero(a) \/ FIsZero(b) THEN FV(FWithSign(FNegBit(a) # FNegBit(b), 0))
  ELSE IF ~(FSmall(a) /\ FSmall(b)) THEN FAnyRes
  ELSE LET x == FDecode(a)
           y == FDecode(b)
       IN FEncode(x.neg # y.neg, x.m * y.m, x.e + y.e)

\* IEEE division (the zero-divisor rule of the instructions is applied before this is used)
FDiv(a, b) ==
  IF FIsNaN(a) \/ FIsNaN(b) THEN FNaNRes
  ELSE IF FIsInf(a) /\ FIsInf(b) THEN FNaNRes
  ELSE IF FIsZero(a) /\ FIsZero(b) THEN FNaNRes
  ELSE IF FIsInf(a) \/ FIsZero(b) THEN FV(FWithSign(FNegBit(a) # FNegBit(b), 2139095040))
  ELSE IF FIsInf(b) \/ FIsZero(a) THEN FV(FWithSign(FNegBit(a) # FNegBit(b), 0))
  ELSE IF ~(FSmall(a) /\ FSmall(b)) THEN FAnyRes
  ELSE LET x == FDecode(a)
           y == FDecode(b)
       IN IF x.m % y.m = 0 THEN FEncode(x.neg # y.neg, x.m \div y.m, x.e - y.e) ELSE FAnyRes

\* Rust's `%` on f32 (fmod): exact, sign of the dividend
FRem(a, b) ==
  IF FIsNaN(a) \/ FIsNaN(b) \/ FIsInf(a) \/ FIsZero(b) THEN FNaNRes
  ELSE IF FIsInf(b) THEN FV(a)
  ELSE IF FIsZero(a) THEN FV(a)
  ELSE IF ~(FSmall(a) /\ FSmall(b)) THEN FAnyRes
  ELSE LET x == FDecode(a)
           y == FDecode(b)
           e0 == Min2(x.e, y.e)
       IN IF x.e - e0 > 17 \/ y.e - e0 > 17 THEN FAnyRes
          ELSE LET nx == x.m * 2^(x.e - e0)
                   ny == y.m * 2^(y.e - e0)
                   r  == nx % ny
               IN IF r = 0 THEN FV(FWithSign(x.neg, 0)) ELSE FEncode(x.neg, r, e0)

\* `i as f32`: round to nearest, ties to even
FFromInt(i) ==
  IF i = 0 THEN FPosZero
  ELSE IF i = MinInt THEN FWithSign(TRUE, 158 * P23)
  ELSE LET neg == i < 0
           m   == IF neg THEN -i ELSE i
           p   == BitLen(m) - 1
       IN IF p <= 23 THEN FWithSign(neg, (p + 127) * P23 + (m - 2^p) * 2^(23 - p))
          ELSE LET sh == p - 23
                   q  == m \div 2^sh
                   r  == m % 2^sh
                   half == 2^(sh - 1)
                   up == IF r > half \/ (r = half /\ q % 2 = 1) THEN 1 ELSE 0
               IN FWithSign(neg, (p + 127) * P23 + (q - P23) + up)

\* `f as i32`: truncation toward zero, saturating, NaN -> 0
FToInt(b) ==
  IF FIsNaN(b) THEN 0
  ELSE IF FIsInf(b) THEN (IF FNegBit(b) THEN MinInt ELSE MaxInt)
  ELSE IF FExp(b) = 0 THEN 0
  ELSE LET m == P23 + FMan(b)
           e == FExp(b) - 150
       IN IF e > 7 THEN (IF FNegBit(b) THEN MinInt ELSE MaxInt)
          ELSE IF e >= 0 THEN (IF FNegBit(b) THEN -(m * 2^e) ELSE m * 2^e)
          ELSE IF e < -24 THEN 0
          ELSE (IF FNegBit(b) THEN -(m \div 2^(-e)) ELSE m \div 2^(-e))

\* is the truncation of b representable as a 32-bit integer? (otherwise "any in-type value is acceptable")
FToIntFits(b) ==
  /\ ~FIsNaN(b) /\ ~FIsInf(b)
  /\ (FExp(b) = 0 \/ FExp(b) - 150 <= 7 \/ (FNegBit(b) /\ FMan(b) = 0 /\ FExp(b) - 150 = 8))

FFromBool(x) == IF x THEN FOne ELSE FPosZero
=============================================================================
