------------------------------ MODULE PushCode ------------------------------
(***************************************************************************)
(* CODE.*, EXEC.* and INDEX.* instructions other than the generic stack    *)
(* family: list surgery on code items (property C08), control flow and     *)
(* the re-arming loop rewrites (property C06).                             *)
(***************************************************************************)
EXTENDS PushScalar

\* push a BOOLEAN that is exact unless the operands contain values whose textual / IEEE
\* comparison the specification does not model (arbitrary floats, non-plain identifiers)
PushBoolUnlessFuzzy(s, fuzzy, b) ==
  IF fuzzy THEN FiredH(PushOn(s, "bool", FALSE), <<Hole(<<"bool", 1>>, "bool")>>)
  ELSE Fired(PushOn(s, "bool", b))
PushIntUnlessFuzzy(s, fuzzy, x) ==
  IF fuzzy THEN FiredH(PushOn(s, "int", 0), <<Hole(<<"int", 1>>, "int")>>)
  ELSE Fired(PushOn(s, "int", x))

\* positional discrepancy of two items: lists are compared element by element (printed forms) over the
\* common prefix plus the difference of their lengths; anything else counts 1 when different
Discrepancy(a, b) ==
  IF a.k = "list" /\ b.k = "list"
  THEN LET n == Min2(Len(a.v), Len(b.v))
       IN Cardinality({i \in 1..n : PrintItem(a.v[i]) # PrintItem(b.v[i])})
          + (IF Len(a.v) > Len(b.v) THEN Len(a.v) - Len(b.v) ELSE Len(b.v) - Len(a.v))
  ELSE IF PrintItem(a) = PrintItem(b) THEN 0 ELSE 1

\* EQ on two item stacks (CODE.= / EXEC.=): equality of the printed forms (floats at three decimals);
\* the operands stay
ItemEq(s, f) ==
  IF ~Has(s, f, 2) THEN Unfired(s)
  ELSE PushBoolUnlessFuzzy(s, Fuzzy(s[f][1]) \/ Fuzzy(s[f][2]), PrintItem(s[f][1]) = PrintItem(s[f][2]))

\* CONS in the Lisp sense: the second item becomes the first element of the top item, which is
\* coerced to a list when it is an atom
Cons(second, top) == IList(<<second>> \o (IF top.k = "list" THEN top.v ELSE <<top>>))

CodeInstr == {"CODE.=", "CODE.APPEND", "CODE.ATOM", "CODE.CAR", "CODE.CDR", "CODE.CONS",
              "CODE.CONTAINER", "CODE.CONTAINS", "CODE.DEFINITION", "CODE.DISCREPANCY", "CODE.DO",
              "CODE.DO*", "CODE.EXTRACT", "CODE.FROMBOOLEAN", "CODE.FROMFLOAT", "CODE.FROMINTEGER",
              "CODE.FROMNAME", "CODE.IF", "CODE.INSERT", "CODE.LENGTH", "CODE.LIST", "CODE.LOOP",
              "CODE.MEMBER", "CODE.NOOP", "CODE.NTH", "CODE.NULL", "CODE.POSITION", "CODE.PRINT",
              "CODE.QUOTE", "CODE.SIZE", "CODE.SUBST"}

ApplyCode(n, s) ==
  LET c == s.code IN
  CASE n = "CODE.=" -> ItemEq(s, "code")
    \* pushes a list of the two items (first element: the former top); no splicing
    [] n = "CODE.APPEND" -> IF Has(s, "code", 2)
                            THEN Fired(SetF(s, "code", <<IList(<<c[1], c[2]>>)>> \o Drop(c, 2)))
                            ELSE Unfired(s)
    \* TRUE for anything that is not a parenthesized list; the operand stays
    [] n = "CODE.ATOM" -> IF Has(s, "code", 1) THEN Fired(PushOn(s, "bool", IsAtom(c[1]))) ELSE Unfired(s)
    [] n = "CODE.CAR"  -> IF Has(s, "code", 1) /\ c[1].k = "list"
                          THEN Fired(SetF(s, "code", (IF c[1].v = <<>> THEN <<>> ELSE <<c[1].v[1]>>) \o Tail(c)))
                          ELSE Unfired(s)
    \* a non-list argument is replaced by the empty list
    [] n = "CODE.CDR"  -> IF ~Has(s, "code", 1) THEN Unfired(s)
                          ELSE IF c[1].k = "list"
                          THEN Fired(SetF(s, "code", <<IList(IF c[1].v = <<>> THEN <<>> ELSE Tail(c[1].v))>> \o Tail(c)))
                          ELSE Fired(SetF(s, "code", <<EmptyList>> \o Tail(c)))
    [] n = "CODE.CONS" -> IF Has(s, "code", 2)
                          THEN Fired(SetF(s, "code", <<Cons(c[2], c[1])>> \o Drop(c, 2)))
                          ELSE Unfired(s)
    \* container of the second item within the top item; the operands stay
    [] n = "CODE.CONTAINER" -> IF Has(s, "code", 2)
                               THEN LET r == ContainerOf(c[1], c[2]) IN
                                    IF StructFuzzy(c[1]) \/ StructFuzzy(c[2])
                                    THEN FiredH(PushOn(s, "code", r.item), <<Hole(<<"code", 1>>, "item")>>)
                                    ELSE Fired(PushOn(s, "code", r.item))
                               ELSE Unfired(s)
    \* does the top item contain the second item anywhere (structurally); the operands stay
    [] n = "CODE.CONTAINS" -> IF Has(s, "code", 2)
                              THEN PushBoolUnlessFuzzy(s, StructFuzzy(c[1]) \/ StructFuzzy(c[2]), Occurs(c[1], c[2]))
                              ELSE Unfired(s)
    \* does the second item contain the top item anywhere (structurally); the operands stay
    [] n = "CODE.MEMBER"   -> IF Has(s, "code", 2)
                              THEN PushBoolUnlessFuzzy(s, StructFuzzy(c[1]) \/ StructFuzzy(c[2]), Occurs(c[2], c[1]))
                              ELSE Unfired(s)
    [] n = "CODE.DEFINITION" -> IF ~Has(s, "name", 1) THEN Unfired(s)
                                ELSE LET s1 == PopN(s, "name", 1) IN
                                     IF s.name[1] \in DOMAIN s.bind
                                     THEN Fired(PushOn(s1, "code", s.bind[s.name[1]]))
                                     ELSE Unfired(s1)
    [] n = "CODE.DISCREPANCY" -> IF Has(s, "code", 2)
                                 THEN PushIntUnlessFuzzy(s, Fuzzy(c[1]) \/ Fuzzy(c[2]), Discrepancy(c[2], c[1]))
                                 ELSE Unfired(s)
    \* the program runs first, CODE.POP afterwards
    [] n = "CODE.DO"  -> IF Has(s, "code", 1) THEN Fired(SetF(s, "exec", <<c[1], IIns("CODE.POP")>> \o s.exec))
                         ELSE Unfired(s)
    \* CODE.POP runs first, the program afterwards
    [] n = "CODE.DO*" -> IF Has(s, "code", 1) THEN Fired(SetF(s, "exec", <<IIns("CODE.POP"), c[1]>> \o s.exec))
                         ELSE Unfired(s)
    \* the index is normalised into 0..Size-1 (Euclidean remainder); the container stays
    [] n = "CODE.EXTRACT" -> IF ~Has(s, "int", 1) THEN Unfired(s)
                             ELSE LET s1 == PopN(s, "int", 1) IN
                                  IF ~Has(s, "code", 1) THEN Unfired(s1)
                                  ELSE Fired(PushOn(s1, "code", Extract(c[1], s.int[1] % Size(c[1]))))
    [] n = "CODE.FROMBOOLEAN" -> Un(s, "bool",  LAMBDA r, a : Fired(PushOn(r, "code", IBool(a))))
    [] n = "CODE.FROMFLOAT"   -> Un(s, "float", LAMBDA r, a : Fired(PushOn(r, "code", IFloat(a))))
    [] n = "CODE.FROMINTEGER" -> Un(s, "int",   LAMBDA r, a : Fired(PushOn(r, "code", IInt(a))))
    [] n = "CODE.FROMNAME"    -> Un(s, "name",  LAMBDA r, a : Fired(PushOn(r, "code", IId(a))))
    \* TRUE executes the second item, FALSE the top item; code consumed even if no BOOLEAN
    [] n = "CODE.IF" -> IF ~Has(s, "code", 2) THEN Unfired(s)
                        ELSE LET s1 == PopN(s, "code", 2) IN
                             IF ~Has(s, "bool", 1) THEN Unfired(s1)
                             ELSE Fired(PushOn(PopN(s1, "bool", 1), "exec", IF s.bool[1] THEN c[2] ELSE c[1]))
    \* the second item replaces the point of the top item addressed as in CODE.EXTRACT; both stay
    [] n = "CODE.INSERT" -> IF ~Has(s, "int", 1) THEN Unfired(s)
                            ELSE LET s1 == PopN(s, "int", 1) IN
                                 IF ~Has(s, "code", 2) THEN Unfired(s1)
                                 ELSE Fired(SetF(s1, "code",
                                        <<InsertPt(c[1], c[2], s.int[1] % Size(c[1]))>> \o Tail(c)))
    [] n = "CODE.LENGTH" -> IF Has(s, "code", 1)
                            THEN Fired(PushOn(s, "int", IF c[1].k = "list" THEN Len(c[1].v) ELSE 1))
                            ELSE Unfired(s)
    \* list of the two top items (first element: the top item); the operands stay
    [] n = "CODE.LIST" -> IF Has(s, "code", 2) THEN Fired(PushOn(s, "code", IList(<<c[1], c[2]>>)))
                          ELSE Unfired(s)
    \* ideal loop: the re-armed instruction finds its body on the CODE stack again
    [] n = "CODE.LOOP" -> IF ~Has(s, "code", 1) THEN Unfired(s)
                          ELSE LET s1 == PopN(s, "code", 1) IN
                               IF ~Has(s, "index", 1) THEN Unfired(s1)
                               ELSE IF s.index[1].cur < s.index[1].dst
                               THEN Fired(SetF(s1, "exec",
                                      <<c[1], IList(<<IIns("INDEX.INCREASE"), IIns("CODE.QUOTE"), c[1],
                                                      IIns("CODE.LOOP")>>)>> \o s.exec))
                               ELSE Fired(PopN(s1, "index", 1))
    [] n = "CODE.NOOP" -> Fired(s)
    \* k = n mod (length + 1): 0 addresses the whole item, k > 0 the k-th element; the item stays
    [] n = "CODE.NTH" -> IF ~Has(s, "int", 1) THEN Unfired(s)
                         ELSE LET s1 == PopN(s, "int", 1) IN
                              IF ~Has(s, "code", 1) THEN Unfired(s1)
                              ELSE LET len == IF c[1].k = "list" THEN Len(c[1].v) ELSE 0
                                       k   == s.int[1] % (len + 1)
                                   IN Fired(PushOn(s1, "code", IF k = 0 THEN c[1] ELSE c[1].v[k]))
    [] n = "CODE.NULL" -> IF Has(s, "code", 1)
                          THEN Fired(PushOn(s, "bool", c[1].k = "list" /\ c[1].v = <<>>))
                          ELSE Unfired(s)
    \* a depth-first index at which the second item sits within the top item (which one, when it occurs more than
    \* once, is left open), -1 exactly when absent; operands stay
    [] n = "CODE.POSITION" -> IF ~Has(s, "code", 2) THEN Unfired(s)
                              ELSE IF StructFuzzy(c[1]) \/ StructFuzzy(c[2]) \/ Len(AllPositions(c[1], c[2])) <= 1
                              THEN PushIntUnlessFuzzy(s, StructFuzzy(c[1]) \/ StructFuzzy(c[2]), Position(c[1], c[2]))
                              ELSE FiredH(PushOn(s, "int", Position(c[1], c[2])), <<HoleAB(<<"int", 1>>, "member", AllPositions(c[1], c[2]), 0)>>)
    \* the whole CODE stack printed top first onto the NAME stack
    [] n = "CODE.PRINT" -> IF ~Has(s, "code", 1) THEN Unfired(s)
                           ELSE IF \E i \in 1..Len(c) : Fuzzy(c[i])
                           THEN FiredH(PushOn(s, "name", ""), <<Hole(<<"name", 1>>, "name")>>)
                           ELSE Fired(PushOn(s, "name", PrintItems(c)))
    [] n = "CODE.QUOTE" -> IF Has(s, "exec", 1) THEN Fired(PushOn(PopN(s, "exec", 1), "code", s.exec[1]))
                           ELSE Unfired(s)
    [] n = "CODE.SIZE"  -> IF Has(s, "code", 1) THEN Fired(PushOn(s, "int", Size(c[1]))) ELSE Unfired(s)
    \* top = target, second = replacement, third = pattern
    [] n = "CODE.SUBST" -> IF ~Has(s, "code", 3) THEN Unfired(s)
                           ELSE IF StructFuzzy(c[1]) \/ StructFuzzy(c[3])
                           THEN FiredH(SetF(s, "code", <<c[1]>> \o Drop(c, 3)), <<Hole(<<"code", 1>>, "item")>>)
                           ELSE Fired(SetF(s, "code", <<Subst(c[1], c[3], c[2])>> \o Drop(c, 3)))

ExecInstr == {"EXEC.=", "EXEC.CMD", "EXEC.IF", "EXEC.K", "EXEC.S", "EXEC.Y", "EXEC.LOOP"}
ApplyExec(n, s) ==
  LET e == s.exec IN
  CASE n = "EXEC.=" -> ItemEq(s, "exec")
    \* n arguments: the command name is the deepest of the n+1 popped names (no state effect)
    [] n = "EXEC.CMD" -> IF ~Has(s, "int", 1) THEN Unfired(s)
                         ELSE LET s1 == PopN(s, "int", 1)
                                  k  == s.int[1]
                              IN IF k < 0 \/ k = MaxInt \/ Len(s.name) < k + 1 THEN Unfired(s1)
                                 ELSE Fired(PopN(s1, "name", k + 1))
    \* TRUE keeps the first (top) item, FALSE the second; items consumed even if no BOOLEAN
    [] n = "EXEC.IF" -> IF ~Has(s, "exec", 2) THEN Unfired(s)
                        ELSE LET s1 == PopN(s, "exec", 2) IN
                             IF ~Has(s, "bool", 1) THEN Unfired(s1)
                             ELSE Fired(PushOn(PopN(s1, "bool", 1), "exec", IF s.bool[1] THEN e[1] ELSE e[2]))
    [] n = "EXEC.K" -> IF Has(s, "exec", 2) THEN Fired(SetF(s, "exec", <<e[1]>> \o Drop(e, 2))) ELSE Unfired(s)
    \* A B C -> A C ( B C )
    [] n = "EXEC.S" -> IF Has(s, "exec", 3)
                       THEN Fired(SetF(s, "exec", <<e[1], e[3], IList(<<e[2], e[3]>>)>> \o Drop(e, 3)))
                       ELSE Unfired(s)
    \* inserts ( EXEC.Y top ) beneath the top item
    [] n = "EXEC.Y" -> IF Has(s, "exec", 1)
                       THEN Fired(SetF(s, "exec", <<e[1], IList(<<IIns("EXEC.Y"), e[1]>>)>> \o Tail(e)))
                       ELSE Unfired(s)
    \* the body runs now and the re-armed loop ( INDEX.INCREASE EXEC.LOOP body ) after it
    [] n = "EXEC.LOOP" -> IF ~Has(s, "exec", 1) THEN Unfired(s)
                          ELSE LET s1 == PopN(s, "exec", 1) IN
                               IF ~Has(s, "index", 1) THEN Unfired(s1)
                               ELSE IF s.index[1].cur < s.index[1].dst
                               THEN Fired(SetF(s1, "exec",
                                      <<e[1], IList(<<IIns("INDEX.INCREASE"), IIns("EXEC.LOOP"), e[1]>>)>> \o s1.exec))
                               ELSE Fired(PopN(s1, "index", 1))

IndexInstr == {"INDEX.CURRENT", "INDEX.DEFINE", "INDEX.DESTINATION", "INDEX.FLUSH", "INDEX.INCREASE",
               "INDEX.POP"}
ApplyIndex(n, s) ==
  LET x == s.index IN
  CASE n = "INDEX.CURRENT" -> IF Has(s, "index", 1) THEN Fired(PushOn(s, "int", x[1].cur)) ELSE Unfired(s)
    [] n = "INDEX.DEFINE"  -> Un(s, "int", LAMBDA r, a : Fired(PushOn(r, "index", [cur |-> 0, dst |-> Max2(0, a)])))
    \* as implemented: pushes a fresh index with the same destination (documentation is contradictory)
    [] n = "INDEX.DESTINATION" -> IF Has(s, "index", 1)
                                  THEN Fired(PushOn(s, "index", [cur |-> 0, dst |-> x[1].dst])) ELSE Unfired(s)
    [] n = "INDEX.FLUSH" -> Fired(SetF(s, "index", <<>>))
    [] n = "INDEX.INCREASE" -> IF Has(s, "index", 1) /\ x[1].cur < x[1].dst
                               THEN Fired(SetF(s, "index", <<[x[1] EXCEPT !.cur = @ + 1]>> \o Tail(x)))
                               ELSE Unfired(s)
    [] n = "INDEX.POP" -> IF Has(s, "index", 1) THEN Fired(PopN(s, "index", 1)) ELSE Unfired(s)

ApplyCodeFamily(n, s) ==
  IF n \in CodeInstr THEN ApplyCode(n, s)
  ELSE IF n \in ExecInstr THEN ApplyExec(n, s)
  ELSE ApplyIndex(n, s)
CodeFamily == CodeInstr \cup ExecInstr \cup IndexInstr
=============================================================================
