------------------------------ MODULE MC_Step -------------------------------
(***************************************************************************)
(* Bounded model "one interpreter step": Init chooses an instruction (or   *)
(* another kind of EXEC item) and a pre-state from a bounded universe,     *)
(* Next applies Step once.  The operand stacks of the instruction range    *)
(* over all depths 0..D and all pool values; every other component holds   *)
(* a non-empty sentinel so that frame violations are visible.              *)
(* TLC checks the invariants below on the whole space and prints every     *)
(* explored case as one JSON line, which the harness replays against the   *)
(* real implementation.                                                    *)
(***************************************************************************)
EXTENDS PushFootprint, Json

CONSTANTS Instrs,      \* set of instruction names to enumerate
          IntVals, FloatVals, NameVals,   \* value pools
          CodePool,    \* "atoms" | "trees" | "pairs"
          VecPool,     \* "small" | "wide"
          DInt, DFloat, DBool, DName, DCode, DExec, DVec,   \* maximal operand depth per field
          Interp       \* TRUE: also enumerate the non-instruction step kinds

VARIABLES pre, phase
vars == <<pre, phase>>

F(x) == x   \* readability: float bit patterns are written as integers in the cfg

G1 == [nodes |-> <<[id |-> 1, st |-> 5], [id |-> 2, st |-> 6]>>,
       edges |-> <<[d |-> 2, in |-> <<[o |-> 1, w |-> 1056964608]>>]>>]
G2 == [nodes |-> <<[id |-> 1, st |-> 5], [id |-> 2, st |-> 9], [id |-> 3, st |-> 5]>>,
       edges |-> <<[d |-> 1, in |-> <<[o |-> 3, w |-> FOne]>>], [d |-> 2, in |-> <<[o |-> 1, w |-> 1056964608], [o |-> 3, w |-> 1073741824]>>]>>]
M1 == [h |-> <<1, 2>>, b |-> <<TRUE, FALSE, TRUE>>]
M2 == [h |-> <<>>, b |-> <<>>]
M3 == [h |-> <<9>>, b |-> <<FALSE>>]

Base == [exec |-> <<IInt(77)>>, code |-> <<IId("scode")>>, int |-> <<7777>>, float |-> <<1089470464>>,
         bool |-> <<TRUE>>, name |-> <<"sname">>, bvec |-> <<<<TRUE, FALSE>>>>, ivec |-> <<<<7, 8>>>>,
         fvec |-> <<<<1069547520>>>>, index |-> <<[cur |-> 1, dst |-> 3]>>, graph |-> <<G1>>,
         input |-> <<M1>>, output |-> <<M3>>, bind |-> ("sbound" :> IInt(3)),
         quote |-> FALSE, send |-> FALSE, nid |-> 10, cfg |-> DefaultCfg]

SeqsUpTo(S, d) == UNION {[1..k -> S] : k \in 0..d}

AtomPool == {IInt(1), IInt(2), IBool(TRUE), IIns("INTEGER.+"), IId("a"), IFloat(FOne)}
TreePool == {IInt(1), IId("a"), IIns("NOOP"), EmptyList, IList(<<IInt(1)>>), IList(<<IInt(1), IId("a")>>),
          IList(<<IList(<<IInt(1)>>), IId("a"), IInt(2)>>),
          IList(<<IInt(2), IList(<<IId("a"), IList(<<IInt(1)>>)>>), IInt(1)>>)}
PairPool == {IInt(1), IInt(12), IList(<<IInt(1)>>), IList(<<IInt(12), IList(<<IInt(1)>>)>>), IId("a"),
          IList(<<IId("a"), IInt(1)>>), IList(<<IInt(1), IId("a")>>)}
CodeVals == CASE CodePool = "atoms" -> AtomPool [] CodePool = "trees" -> TreePool [] CodePool = "pairs" -> PairPool
              [] CodePool = "one" -> {IInt(1)}
              [] CodePool = "abc" -> {IInt(1), IId("a"), IList(<<IInt(2)>>), EmptyList}
              [] CodePool = "big" -> {IInt(1), EmptyList, IList([i \in 1..120 |-> IInt(i)])}
              [] CodePool = "recs" -> {IInt(1), IList(<<IInt(4), IBool(TRUE), IFloat(FOne)>>),
                                      IList(<<IList(<<IInt(5), IInt(6)>>), IFloat(1073741824), IBool(FALSE), IInt(7)>>),
                                      IList(<<IList(<<IInt(1), IInt(2), IBool(TRUE), IInt(3), IBool(FALSE), IBool(TRUE), IFloat(FOne), IFloat(0), IFloat(1073741824)>>)>>),
                                      \* a one-element sublist of each type in front of three more values of that type
                                      IList(<<IList(<<IInt(5)>>), IInt(6), IInt(7), IInt(8), IList(<<IBool(TRUE)>>), IBool(FALSE), IBool(FALSE), IBool(TRUE),
                                              IList(<<IFloat(FOne)>>), IFloat(0), IFloat(1073741824), IFloat(1077936128)>>)}

BVecVals == IF VecPool = "ids" THEN {<<TRUE>>} ELSE
            IF VecPool = "small" THEN {<<>>, <<TRUE>>, <<TRUE, FALSE, TRUE>>}
            ELSE {<<>>, <<TRUE>>, <<FALSE, TRUE>>, <<TRUE, FALSE, TRUE>>, <<TRUE, TRUE, FALSE, FALSE>>}
IVecVals == IF VecPool = "ids" THEN {<<>>, <<9, 1>>, <<9, 9, 5>>, <<3, 4, 11>>, <<2, 10, 6, 13, 0>>} ELSE
            IF VecPool = "small" THEN {<<>>, <<5>>, <<3, 1, 2>>}
            ELSE {<<>>, <<5>>, <<1, 9>>, <<3, 1, 2>>, <<MaxInt, -1, MinInt, 2>>, <<2, 2, 1, 2>>}
FVecVals == IF VecPool = "ids" THEN {<<FOne>>} ELSE
            IF VecPool = "small" THEN {<<>>, <<FOne>>, <<FPosZero, 1073741824>>, <<1073741824, FPosZero>>, <<1077936128, FOne, 1073741824>>}
            ELSE {<<>>, <<FOne>>, <<1073741824, FPosZero>>, <<1077936128, FOne, 1073741824>>,
                  <<FQNaN, FOne, FNegInf, 1056964608>>, <<FNegZero, FPosZero, FOne>>, <<1, 981467136, 8388608>>}

PoolSeqs(f) ==
  CASE f = "int"   -> SeqsUpTo(IntVals, DInt)
    [] f = "float" -> SeqsUpTo(FloatVals, DFloat)
    [] f = "bool"  -> SeqsUpTo(BOOLEAN, DBool)
    [] f = "name"  -> SeqsUpTo(NameVals, DName)
    [] f = "code"  -> SeqsUpTo(CodeVals, DCode)
    [] f = "exec"  -> SeqsUpTo(CodeVals, DExec)
    [] f = "bvec"  -> SeqsUpTo(BVecVals, DVec)
    [] f = "ivec"  -> SeqsUpTo(IVecVals, DVec)
    [] f = "fvec"  -> SeqsUpTo(FVecVals, DVec)
    [] f = "index" -> {<<>>, <<[cur |-> 0, dst |-> 0]>>, <<[cur |-> 0, dst |-> 2]>>, <<[cur |-> 2, dst |-> 2]>>,
                       <<[cur |-> 1, dst |-> 3], [cur |-> 0, dst |-> 1]>>}
    [] f = "graph" -> {<<>>, <<G1>>, <<G2, G1>>, <<EmptyGraph, G2>>}
    [] f = "input" -> {<<>>, <<M1>>, <<M2, M1>>, <<M3, M1, M2>>}
    [] f = "output" -> {<<>>, <<M3>>, <<M1, M2, M3>>}

\* the pool of a field for instruction n: its operand pool when n takes operands from it, the
\* sentinel content otherwise
PoolFor(n, f) == IF f \in Reads(n) THEN PoolSeqs(f) ELSE {Base[f]}

\* the non-instruction step kinds: empty EXEC, literals of every type, lists, names (free, bound,
\* quoted), unknown instruction
InterpItems == {IInt(MinInt), IFloat(FQNaN), IBool(FALSE), IBVec(<<TRUE>>), IIVec(<<1, 2>>), IFVec(<<FOne>>),
                IIndex([cur |-> 0, dst |-> 4]), IGraph(G2), EmptyList, IList(<<IInt(1), IId("a"), IList(<<>>)>>),
                IId("sbound"), IId("free"), IIns("NO.SUCH.INSTRUCTION"), IIns("VERIF.PROBE")}
InterpStates ==
  {[Base EXCEPT !.exec = e, !.quote = q] : e \in {<<>>} \cup {<<it>> \o Base.exec : it \in InterpItems}, q \in BOOLEAN}

\* phase "pick": an instruction has been chosen; "pre": its pre-state has been chosen; "post": stepped
Init == /\ phase = "pick"
        /\ pre \in {[Base EXCEPT !.exec = <<IIns(n)>>] : n \in Instrs} \cup (IF Interp THEN {[Base EXCEPT !.exec = <<>>]} ELSE {})
Choose ==
  /\ phase = "pick" /\ phase' = "pre"
  /\ IF pre.exec = <<>> THEN pre' \in InterpStates
     ELSE LET n == pre.exec[1].v IN
          \E ve \in (IF "exec" \in Reads(n) THEN PoolSeqs("exec") ELSE {Base.exec}),
             vc \in PoolFor(n, "code"), vi \in PoolFor(n, "int"), vf \in PoolFor(n, "float"),
             vb \in PoolFor(n, "bool"), vn \in PoolFor(n, "name"), vbv \in PoolFor(n, "bvec"),
             viv \in PoolFor(n, "ivec"), vfv \in PoolFor(n, "fvec"), vx \in PoolFor(n, "index"),
             vg \in PoolFor(n, "graph"), vin \in PoolFor(n, "input"), vout \in PoolFor(n, "output") :
            pre' = [Base EXCEPT !.exec = <<IIns(n)>> \o ve, !.code = vc, !.int = vi, !.float = vf, !.bool = vb,
                                !.name = vn, !.bvec = vbv, !.ivec = viv, !.fvec = vfv, !.index = vx,
                                !.graph = vg, !.input = vin, !.output = vout]
Apply1 == /\ phase = "pre" /\ phase' = "post"
          /\ pre' = Step(pre).res.post
Next == Choose \/ Apply1
Spec == Init /\ [][Next]_vars

---------------------------------------------------------------------------
(* invariants, evaluated on every pre-state *)
IsInstrCase == pre.exec # <<>> /\ pre.exec[1].k = "ins" /\ pre.exec[1].v \in Registry
Ins  == pre.exec[1].v
Body == PopN(pre, "exec", 1)
R    == Step(pre).res

\* C10 on the specification itself: Apply stays inside the footprint table
FrameInv == phase = "pre" /\ IsInstrCase => FrameOK(Ins, Body, R.post, R.fired)

\* C05 on the specification: the stack family permutes / adds one copy / removes what is documented
Bag(s) == [x \in Range(s) |-> CountIn(s, x)]
StackLaws ==
  phase = "pre" /\ IsInstrCase /\ Ins \in StackOpNames =>
    LET T  == StackOpOf[Ins][1]
        op == StackOpOf[Ins][2]
        f  == TypePrefix[T]
        before == IF op \in {"YANK", "YANKDUP", "SHOVE"} /\ f = "int" /\ Body.int # <<>> THEN Tail(Body.int) ELSE Body[f]
        after  == R.post[f]
    IN CASE op \in {"SWAP", "ROT", "YANK", "SHOVE"} -> Bag(after) = Bag(before)
         [] op \in {"DUP", "YANKDUP"} -> (after = before) \/ (Len(after) = Len(before) + 1 /\ Tail(after) = before /\ after[1] \in Range(before))
         [] op = "POP"   -> after = (IF before = <<>> THEN <<>> ELSE Tail(before))
         [] op = "FLUSH" -> after = <<>>
         [] op = "STACKDEPTH" -> R.post.int[1] = Len(R.post[f]) /\ (f # "int" => after = before)
         [] OTHER -> TRUE

\* C04 on the specification: algebraic sanity of the scalar reference itself
ScalarLaws ==
  phase = "pre" /\ IsInstrCase /\ R.fired =>
    LET i == Body.int  f == Body.float IN
    /\ (Ins \in {"INTEGER.MAX", "INTEGER.MIN"} /\ R.holes = <<>> =>
          /\ R.post.int[1] \in {i[1], i[2]}
          /\ (Ins = "INTEGER.MAX" => R.post.int[1] >= i[1] /\ R.post.int[1] >= i[2])
          /\ (Ins = "INTEGER.MIN" => R.post.int[1] <= i[1] /\ R.post.int[1] <= i[2]))
    /\ (Ins = "INTEGER.-" /\ R.holes = <<>> /\ SubFits(i[1], i[2]) /\ NegFits(i[1] - i[2]) =>
          R.post.int[1] = -(i[1] - i[2]))                                   \* second - top = -(top - second)
    /\ (Ins \in {"INTEGER.<", "INTEGER.=", "INTEGER.>"} =>                  \* trichotomy
          Cardinality({op \in {"INTEGER.<", "INTEGER.=", "INTEGER.>"} : Apply(op, Body).post.bool[1]}) = 1)
    /\ (Ins \in {"FLOAT.<", "FLOAT.=", "FLOAT.>"} /\ ~FIsNaN(f[1]) /\ ~FIsNaN(f[2]) =>
          Cardinality({op \in {"FLOAT.<", "FLOAT.=", "FLOAT.>"} : Apply(op, Body).post.bool[1]}) = 1)
    /\ (Ins \in {"INTEGER./", "INTEGER.%"} /\ i[1] # 0 /\ DivFits(i[2], i[1]) =>   \* a = b*q + r with |r| < |b|
          LET q == TruncDiv(i[2], i[1])  r == TruncRem(i[2], i[1])  b == i[1] IN
          /\ i[2] = b * q + r
          /\ r > (IF b > 0 THEN -b ELSE b) /\ (b = MinInt \/ r < (IF b > 0 THEN b ELSE -b)))
    /\ (Ins = "FLOAT.FROMINTEGER" /\ i[1] > -16777216 /\ i[1] < 16777216 => FToInt(R.post.float[1]) = i[1])  \* exact round trip

\* C09 on the specification: the overlap rule
VectorLaws ==
  phase = "pre" /\ IsInstrCase /\ R.fired =>
    /\ (Ins \in {"BOOLVECTOR.AND", "BOOLVECTOR.OR", "INTVECTOR.+", "INTVECTOR.-", "FLOATVECTOR.+", "FLOATVECTOR.-", "FLOATVECTOR.*"} =>
          LET fld == Footprint(Ins).r \ {"int"}
              vf  == CHOOSE x \in fld : TRUE
              top == Body[vf][1]  second == Body[vf][2]  off == Body.int[1]  res == R.post[vf][1]
          IN /\ Len(res) = Len(second)                                                   \* V2
             /\ \A j \in 1..Len(second) : SrcPos(j, off, Len(top)) = 0 => res[j] = second[j]   \* V1, V3
             /\ \A h \in 1..Len(R.holes) : SrcPos(R.holes[h].p[3], off, Len(top)) # 0)        \* only combined cells are open
    /\ (Ins \in {"INTVECTOR.SORT*ASC", "INTVECTOR.SORT*DESC", "BOOLVECTOR.SORT*ASC", "FLOATVECTOR.SORT*ASC"} =>      \* V4
          LET vf == CHOOSE x \in Footprint(Ins).r : TRUE
              res == R.post[vf][1]
          IN IsPerm(res, Body[vf][1]) /\
             (Ins = "INTVECTOR.SORT*ASC" => \A j \in 1..(Len(res) - 1) : res[j] <= res[j + 1]) /\
             (Ins = "INTVECTOR.SORT*DESC" => \A j \in 1..(Len(res) - 1) : res[j] >= res[j + 1]))
    /\ (Ins = "INTVECTOR.APPEND" => Len(R.post.ivec[1]) = Len(Body.ivec[1]) + 1 /\ Last(R.post.ivec[1]) = Body.int[1])   \* V5
    /\ (Ins = "INTVECTOR.ROTATE" => Len(R.post.ivec[1]) = Len(Body.ivec[1]))
    /\ (Ins = "INTVECTOR.REMOVE" => ~Contains(R.post.ivec[1], Body.int[1]))

\* C19 on the specification: LIST.ADD moves exactly the designated items into one record, in vector order
AllAtoms(s) == Len(s.int) + Len(s.float) + Len(s.bool) + Len(s.name) + Len(s.bvec) + Len(s.ivec) + Len(s.fvec)
               + SumSeq([i \in 1..Len(s.code) |-> Len(Atoms(s.code[i]))]) + SumSeq([i \in 1..Len(s.exec) |-> Len(Atoms(s.exec[i]))])
ListLaws ==
  phase = "pre" /\ IsInstrCase /\ Ins = "LIST.ADD" /\ R.fired =>
    /\ Len(R.post.code) >= 1 /\ R.post.code[1].k = "list"
    /\ AllAtoms(R.post) = AllAtoms(Body) - 1                    \* only the id vector disappears (LS4)
    /\ Len(R.post.code[1].v) <= Len(Body.ivec[1])               \* at most one item per id (LS1)

\* every case is printed for replay (always TRUE)
Emit == phase = "pre" => PrintT("CASE " \o ToJson([f \in (IF IsInstrCase THEN Reads(Ins) ELSE {}) \cup {"exec", "quote"} |-> pre[f]]))
=============================================================================
