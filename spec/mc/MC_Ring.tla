------------------------------- MODULE MC_Ring ------------------------------
(***************************************************************************)
(* The ring buffer (property C17): ALL histories of push / push_force /    *)
(* pop / flush for one capacity and kind over a 3-value alphabet (finite   *)
(* state: TLC reaches a fixpoint, not a length bound).  In every reachable *)
(* state: the ring invariant, and for EVERY operation the implementation   *)
(* level model refines the abstract bounded sequence under Live.           *)
(* hist (hidden by the VIEW) is a shortest history reaching the state; it  *)
(* is printed, followed by every observer, for replay on the real buffer.  *)
(***************************************************************************)
EXTENDS PushContainers, Json
CONSTANTS Cap, Kind
VARIABLES b, hist
vars == <<b, hist>>
view == b

Vals == {0, 1, 2}     \* 0 is the default value the implementation keeps in its dead cells
Mutators == {[m |-> "push", args |-> <<x>>] : x \in Vals} \cup {[m |-> "push_force", args |-> <<x>>] : x \in Vals}
            \cup {[m |-> "pop", args |-> <<>>], [m |-> "flush", args |-> <<>>]}
Observers == {[m |-> m, args |-> <<>>] : m \in {"capacity", "size", "is_empty", "is_full", "peek_oldest", "copy_oldest",
                                                "peek_newest", "iter", "iter_len", "to_string"}}
             \cup {[m |-> m, args |-> <<i>>] : m \in {"get", "get_mut", "copy", "iter_skip", "iter_nth"}, i \in 0..(Cap + 1)}
             \cup {[m |-> "iter_step", args |-> <<i>>] : i \in 1..(Cap + 1)} \cup {[m |-> "iter_last", args |-> <<>>]}
Init == b = RingNew(Cap) /\ hist = <<>>
Next == \E o \in Mutators : b' = RingOp(Kind, o.m, o.args, b).post /\ hist' = hist \o <<o>>
Spec == Init /\ [][Next]_vars

Inv == RingInv(b)                                                     \* B1 (size <= capacity) is part of it
Refines == \A o \in Mutators \cup Observers :
             LET ri == RingOp(Kind, o.m, o.args, b)
                 ab == AbsOp(Kind, Cap, o.m, o.args, Live(b))
             IN Live(ri.post) = ab.post /\ ri.ret = ab.ret
Emit == PrintT("CASE " \o ToJson([cap |-> Cap, kind |-> Kind, ops |-> hist \o SetAsSeq(Observers)]))
=============================================================================
