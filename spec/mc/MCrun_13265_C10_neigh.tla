---- MODULE MCrun_13265_C10_neigh ----
EXTENDS MC_Step
cInstrs == {"LIST.NEIGHBOR*BVALS", "LIST.NEIGHBOR*FVALS", "LIST.NEIGHBOR*IDS", "LIST.NEIGHBOR*IVALS"}
cIntVals == {1, 64, 70}
cFloatVals == {1065353216}
cNameVals == {"a", "b"}
====
