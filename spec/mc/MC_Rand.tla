------------------------------- MODULE MC_Rand ------------------------------
(***************************************************************************)
(* Satisfiability (non-vacuity) of the generator contracts (C12, C13) on a *)
(* small model: for every requested size there are items that satisfy the  *)
(* random-code contract, every decomposition request has a valid answer,   *)
(* and the boolean-vector contract admits every position being TRUE.       *)
(***************************************************************************)
EXTENDS PushContainers, Json
CONSTANTS MaxSize
VARIABLES n, phase
vars == <<n, phase>>

Instrs == <<"NOOP", "INTEGER.+">>
LeafPool == {IIns("NOOP"), IIns("INTEGER.+"), IBool(TRUE), IInt(7), IFloat(1056964608), IId("bound")}
ValidLeaf(p) == \/ p.k \in {"list", "bool", "int", "id"}
                \/ (p.k = "ins" /\ \E i \in 1..Len(Instrs) : Instrs[i] = p.v)
                \/ (p.k = "float" /\ ~FIsNaN(p.v) /\ ~FLt(p.v, FPosZero) /\ FLt(p.v, FOne))
RECURSIVE TreesOf(_)
RECURSIVE KidSeqs(_)
KidSeqs(k) == IF k = 0 THEN {<<>>} ELSE UNION {{<<t>> \o rest : t \in TreesOf(j), rest \in KidSeqs(k - j)} : j \in 1..k}
TreesOf(k) == IF k = 1 THEN LeafPool ELSE {IList(ks) : ks \in KidSeqs(k - 1)}
RECURSIVE Compositions(_)
Compositions(k) == IF k = 0 THEN {<<>>} ELSE UNION {{<<j>> \o rest : rest \in Compositions(k - j)} : j \in 1..k}

Init == n \in 1..MaxSize /\ phase = "n"
Next == UNCHANGED vars
Spec == Init /\ [][Next]_vars
\* exact size: some item of exactly n points satisfies the contract, and every enumerated item has that size
CodeContract == /\ \E t \in TreesOf(n) : \A i \in 1..Len(Points(t)) : ValidLeaf(Points(t)[i])
                /\ \A t \in TreesOf(n) : Size(t) = n
\* bounded size: for a bound m = n + 1 >= 2 the admissible sizes 1..m-1 are all inhabited
BoundContract == \A k \in 1..n : TreesOf(k) # {}
DecomposeContract == /\ Compositions(n) # {}
                     /\ \A c \in Compositions(n) : SumSeq(c) = n /\ \A i \in 1..Len(c) : c[i] >= 1
\* a vector of length n with k TRUE bits exists for every k and every position can carry one of them
BoolVecContract == \A k \in 1..n : \A pos \in 1..n : \E v \in [1..n -> BOOLEAN] : v[pos] /\ Cardinality({i \in 1..n : v[i]}) = k
=============================================================================
