---- MODULE MCrun ----
EXTENDS MC_Step
cInstrs == {"INTEGER.+", "INTEGER./", "INTEGER.YANK", "BOOLEAN.YANKDUP", "FLOAT.+", "FLOAT.MAX"}
cIntVals == {MinInt, -1, 0, 1, 2, MaxInt}
cFloatVals == {0, MinInt, 1065353216, -1082130432, 2143289344, 2139095040, 1069547520}
cNameVals == {"a", "b"}
====
