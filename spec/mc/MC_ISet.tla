------------------------------- MODULE MC_ISet ------------------------------
(***************************************************************************)
(* All histories of bounded length of the instruction-set object over a    *)
(* small universe of names (two built-ins, two custom names, one of them   *)
(* lower case).  Laws checked in every state; a history per distinct state *)
(* followed by all observers is printed for replay on the real object.     *)
(***************************************************************************)
EXTENDS PushISet, Json
CONSTANTS MaxOps
VARIABLES s, hist
vars == <<s, hist>>
view == s

U == {"NOOP", "INTEGER.+", "MY.X", "my.y"}
Mut == {[m |-> "load", args |-> <<>>]} \cup {[m |-> "add", args |-> <<n, k>>] : n \in U, k \in {7, 9}}
Obs == {[m |-> m, args |-> <<n>>] : m \in {"is", "get", "exec"}, n \in U \cup {"NEVER.REGISTERED"}} \cup {[m |-> "cache_len", args |-> <<>>]}
Init == s = ISEmpty /\ hist = <<>>
Next == Len(hist) < MaxOps /\ \E o \in Mut : s' = ISOp(o.m, o.args, s).post /\ hist' = hist \o <<o>>
Spec == Init /\ [][Next]_vars

\* names only accumulate; the last registration under a name is the one that runs; load restores built-ins
L1 == [][s.names \subseteq s'.names]_vars
L2 == \A n \in U : n \in s.names =>
         ISExec(s, n) = IF ISTag(s, n) = 0 THEN Apply(n, PopN(ISProbe(n), "exec", 1)).post.int ELSE <<ISTag(s, n), 3, 2>>
L3 == \A n \in U \cap Registry : ISExec(ISLoad(s), n) = ISExec(ISLoad(ISEmpty), n)
L4 == \A n \in U, k \in {7, 9} : ISExec(ISAdd(s, n, k), n) = <<k, 3, 2>>
Emit == PrintT("CASE " \o ToJson([ops |-> hist \o SetAsSeq(Obs)]))
=============================================================================
