------------------------------ MODULE MC_Behav ------------------------------
(***************************************************************************)
(* Bounded model "whole executions": a catalogue of small programs, each   *)
(* with the behaviour the DOCUMENTATION promises (probe log, final stack    *)
(* contents), executed by the specification's Step until EXEC is empty.    *)
(* The expectations are closed forms, independent of the re-arming         *)
(* rewrites of the loop instructions, so checking them is a theorem about  *)
(* those rewrites (properties C06, C07), not a restatement.                *)
(* Every explored behaviour is printed as a case; the harness replays it   *)
(* step by step on the real code with the real probe's log compared.       *)
(***************************************************************************)
EXTENDS PushFootprint, Json

CONSTANTS Which,   \* "control" | "names"
          N        \* loop counts 0..N

VARIABLES st, ticks, init, exp
vars == <<st, ticks, init, exp>>

P == IIns("VERIF.PROBE")
I(x) == IIns(x)
L(s) == IList(s)
T(cur, has, int) == [cur |-> cur, has |-> has, int |-> int]
Prog(items) == [EmptyState EXCEPT !.exec = <<IList(items)>>]
Exp(what, owner, tk, fields) == [what |-> what, owner |-> owner, ticks |-> tk, fields |-> fields]
Entry(prog, e) == [prog |-> prog, exp |-> e]
RECURSIVE Repeat(_, _)
Repeat(s, k) == IF k = 0 THEN <<>> ELSE s \o Repeat(s, k - 1)
Empty3 == <<<<"exec", <<>> >>, <<"index", <<>> >>, <<"code", <<>> >> >>

Vecs == {<<>>, <<7>>, <<3, 1, 2>>}
CurBody == L(<<I("INDEX.CURRENT"), P, I("INTEGER.POP")>>)

Control ==
  {Entry(Prog(<<IInt(n), I("INDEX.DEFINE"), I("EXEC.LOOP"), P>>),
         Exp("EXEC.LOOP runs its body n times with INDEX.CURRENT 0..n-1", "C06",
             [i \in 1..n |-> T(i - 1, FALSE, 0)], Empty3 \o <<<<"int", <<>> >> >>)) : n \in 0..N}
  \cup
  {Entry(Prog(<<IInt(n), I("INDEX.DEFINE"), I("EXEC.LOOP"), CurBody>>),
         Exp("EXEC.LOOP exposes the loop counter through INDEX.CURRENT", "C06",
             [i \in 1..n |-> T(i - 1, TRUE, i - 1)], Empty3 \o <<<<"int", <<>> >> >>)) : n \in 0..N}
  \cup
  {Entry(Prog(<<IInt(n), I("INDEX.DEFINE"), I("EXEC.LOOP"),
                L(<<IInt(m), I("INDEX.DEFINE"), I("EXEC.LOOP"), CurBody>>)>>),
         Exp("nested EXEC.LOOPs run in product order", "C06",
             Repeat([j \in 1..m |-> T(j - 1, TRUE, j - 1)], n), Empty3)) : n \in 0..N, m \in 0..2}
  \cup
  {Entry(Prog(<<IIVec(v), I("INTVECTOR.LOOP"), P>>),
         Exp("INTVECTOR.LOOP runs its body once per element, in order, element on INTEGER", "C06",
             [i \in 1..Len(v) |-> T(-1, TRUE, v[i])], Empty3 \o <<<<"ivec", <<>> >>, <<"int", Rev(v)>> >>)) : v \in Vecs}
  \cup
  {Entry(Prog(<<IInt(n), I("INDEX.DEFINE"), I("EXEC.LOOP"), L(<<IIVec(<<4, 5>>), I("INTVECTOR.LOOP"), L(<<P, I("INTEGER.POP")>>)>>)>>),
         Exp("INTVECTOR.LOOP inside EXEC.LOOP", "C06",
             Repeat(<<T(0, TRUE, 4), T(0, TRUE, 5)>>, 0) \o
             FlatSeq([i \in 1..n |-> <<T(i - 1, TRUE, 4), T(i - 1, TRUE, 5)>>]), Empty3 \o <<<<"ivec", <<>> >> >>)) : n \in 0..N}
  \cup
  {Entry(Prog(<<I("CODE.QUOTE"), P, IInt(n), I("INDEX.DEFINE"), I("CODE.LOOP")>>),
         Exp("CODE.LOOP runs its body n times with INDEX.CURRENT 0..n-1", "C06",
             [i \in 1..n |-> T(i - 1, FALSE, 0)], Empty3)) : n \in 0..N}
  \cup
  {Entry(Prog(<<IInt(1), P, L(<<IInt(2), P, L(<<IInt(3), P>>)>>), IInt(4), P>>),
         Exp("a list runs its elements left to right", "C06",
             <<T(-1, TRUE, 1), T(-1, TRUE, 2), T(-1, TRUE, 3), T(-1, TRUE, 4)>>, Empty3)),
   Entry(Prog(<<I("EXEC.K"), L(<<IInt(1), P>>), L(<<IInt(2), P>>)>>),
         Exp("EXEC.K drops the second item", "C06", <<T(-1, TRUE, 1)>>, Empty3)),
   Entry(Prog(<<I("EXEC.S"), L(<<IInt(1), P>>), L(<<IInt(2), P>>), L(<<IInt(3), P>>)>>),
         Exp("EXEC.S: A B C -> A C ( B C )", "C06",
             <<T(-1, TRUE, 1), T(-1, TRUE, 3), T(-1, TRUE, 2), T(-1, TRUE, 3)>>, Empty3)),
   Entry(Prog(<<I("EXEC.DUP"), L(<<IInt(1), P>>)>>),
         Exp("EXEC.DUP: do twice", "C06", <<T(-1, TRUE, 1), T(-1, TRUE, 1)>>, Empty3)),
   Entry(Prog(<<IInt(3), I("EXEC.Y"), L(<<P, IInt(1), I("INTEGER.-"), I("INTEGER.DUP"), IInt(0), I("INTEGER.>"),
                                         I("EXEC.IF"), L(<<>>), I("EXEC.POP")>>)>>),
         Exp("EXEC.Y repeats until its copy is popped", "C06",
             <<T(-1, TRUE, 3), T(-1, TRUE, 2), T(-1, TRUE, 1)>>, Empty3 \o <<<<"int", <<0>> >> >>)),
   Entry(Prog(<<I("CODE.QUOTE"), L(<<IInt(5), P>>), I("CODE.DO")>>),
         Exp("CODE.DO runs the program, then pops it", "C06", <<T(-1, TRUE, 5)>>, Empty3)),
   Entry(Prog(<<I("CODE.QUOTE"), L(<<IInt(5), P>>), I("CODE.DO*")>>),
         Exp("CODE.DO* pops the program, then runs it", "C06", <<T(-1, TRUE, 5)>>, Empty3))}
  \cup
  {Entry(Prog(<<IBool(b), I("EXEC.IF"), L(<<IInt(1), P>>), L(<<IInt(2), P>>)>>),
         Exp("EXEC.IF keeps the first item for TRUE, the second for FALSE", "C06",
             <<T(-1, TRUE, IF b THEN 1 ELSE 2)>>, Empty3)) : b \in BOOLEAN}
  \cup
  {Entry(Prog(<<I("CODE.QUOTE"), L(<<IInt(1), P>>), I("CODE.QUOTE"), L(<<IInt(2), P>>), IBool(b), I("CODE.IF")>>),
         Exp("CODE.IF runs the second item for TRUE, the top item for FALSE", "C06",
             <<T(-1, TRUE, IF b THEN 1 ELSE 2)>>, Empty3)) : b \in BOOLEAN}

\* property C07: for every value type: define / use / redefine / quote / definition
Types == {"BOOLEAN", "INTEGER", "FLOAT", "BOOLVECTOR", "INTVECTOR", "FLOATVECTOR", "CODE", "EXEC"}
Lit(Ty, k) ==   \* two distinguishable literals per type
  CASE Ty = "BOOLEAN" -> IBool(k = 1) [] Ty = "INTEGER" -> IInt(4 + k) [] Ty = "FLOAT" -> IFloat(IF k = 1 THEN 1069547520 ELSE FOne)
    [] Ty = "BOOLVECTOR" -> IBVec(<<k = 1, TRUE>>) [] Ty = "INTVECTOR" -> IIVec(<<k, 9>>) [] Ty = "FLOATVECTOR" -> IFVec(<<FOne, IF k = 1 THEN 1069547520 ELSE FOne>>)
    [] OTHER -> IInt(4 + k)                       \* CODE / EXEC: the bound program is the literal 4+k
FieldOf(Ty) == IF Ty \in {"CODE", "EXEC"} THEN "int" ELSE TypePrefix[Ty]
\* program fragment that binds name x to the k-th literal of type Ty
DefineFrag(Ty, k, quoted) ==
  LET nm == IF quoted THEN <<I("NAME.QUOTE"), IId("x")>> ELSE <<IId("x")>> IN
  CASE Ty = "CODE" -> <<I("CODE.QUOTE"), Lit(Ty, k)>> \o nm \o <<I("CODE.DEFINE")>>
    [] Ty = "EXEC" -> nm \o <<I("EXEC.DEFINE"), Lit(Ty, k)>>
    [] OTHER -> <<Lit(Ty, k)>> \o nm \o <<I(Ty \o ".DEFINE")>>
Val(Ty, k) == Lit(Ty, k).v
Names ==
  UNION {{
    Entry(Prog(DefineFrag(Ty, 1, FALSE) \o <<IId("x")>>),
          Exp("a bound name puts its value back on its stack (" \o Ty \o ")", "C07", <<>>,
              <<<<FieldOf(Ty), <<Val(Ty, 1)>> >>, <<"name", <<>> >>, <<"exec", <<>> >> >>)),
    Entry(Prog(DefineFrag(Ty, 1, FALSE) \o DefineFrag(Ty, 2, TRUE) \o <<IId("x")>>),
          Exp("a later definition replaces an earlier one (" \o Ty \o ")", "C07", <<>>,
              <<<<FieldOf(Ty), <<Val(Ty, 2)>> >>, <<"name", <<>> >>, <<"exec", <<>> >> >>)),
    Entry(Prog(DefineFrag(Ty, 1, FALSE) \o <<I("NAME.QUOTE"), IId("x"), IId("x")>>),
          Exp("NAME.QUOTE sends exactly the next name to the NAME stack (" \o Ty \o ")", "C07", <<>>,
              <<<<FieldOf(Ty), <<Val(Ty, 1)>> >>, <<"name", <<"x">> >>, <<"quote", FALSE>>, <<"exec", <<>> >> >>)),
    Entry(Prog(DefineFrag(Ty, 1, FALSE) \o <<I("NAME.QUOTE"), IId("x"), I("CODE.DEFINITION")>>),
          Exp("CODE.DEFINITION returns the bound value unchanged (" \o Ty \o ")", "C07", <<>>,
              <<<<"code", <<Lit(Ty, 1)>> >>, <<"name", <<>> >>, <<"exec", <<>> >> >>))
  } : Ty \in Types}
  \cup
  {Entry(Prog(<<IId("y"), IId("z"), IId("y")>>),
         Exp("names without a binding land on the NAME stack", "C07", <<>>,
             <<<<"name", <<"y", "z", "y">> >>, <<"exec", <<>> >> >>))}

Catalogue == IF Which = "control" THEN Control ELSE Names

Tick(s) == [cur |-> IF s.index = <<>> THEN -1 ELSE s.index[1].cur,
            has |-> s.int # <<>>, int |-> IF s.int = <<>> THEN 0 ELSE s.int[1]]

Init == \E c \in Catalogue : /\ st = c.prog /\ init = c.prog /\ exp = c.exp /\ ticks = <<>>
Next == /\ st.exec # <<>>
        /\ st' = Step(st).res.post
        /\ ticks' = IF st.exec[1] = P THEN ticks \o <<Tick(PopN(st, "exec", 1))>> ELSE ticks
        /\ UNCHANGED <<init, exp>>
Spec == Init /\ [][Next]_vars /\ WF_vars(Next)

Done == st.exec = <<>>
\* L1 / L2 / L3 and the C07 behaviours: at termination the probe log and the listed fields are as documented
Expected == Done => /\ ticks = exp.ticks
                    /\ \A i \in 1..Len(exp.fields) : st[exp.fields[i][1]] = exp.fields[i][2]
\* no step of these programs is left open by the specification
Determinate == Step(st).res.holes = <<>>
Terminates == <>Done
Emit == Done => PrintT("CASE " \o ToJson([pre |-> init, expect |-> exp]))
=============================================================================
