------------------------------ MODULE MC_Graph ------------------------------
(***************************************************************************)
(* Graph memory (property C18): all histories of bounded length of the     *)
(* Graph API on at most MaxNodes nodes with valid, stale and never-issued  *)
(* ids.  G1..G7 are checked in every reachable state; a shortest history   *)
(* per distinct state is printed (followed by the observers) for replay.   *)
(***************************************************************************)
EXTENDS PushContainers, Json
CONSTANTS MaxNodes, MaxOps
VARIABLES g, hist
vars == <<g, hist>>
view == g

Ids == 1..(MaxNodes + 1)          \* MaxNodes+1 may be never-issued or stale
W(k) == IF k = 1 THEN FOne ELSE 1073741824
SortInts(v) == SortByKeys(v, v)
GraphOpM(m, a, s) ==   \* the model of TraceApi, restated on [gs, nid]
  LET w == s.gs[1]  set(g2) == [s EXCEPT !.gs[1] = g2] IN
  CASE m = "add_node"    -> [set(AddNode(w, s.nid, a[1])) EXCEPT !.nid = @ + 1]
    [] m = "remove_node" -> set(RemoveNode(w, a[1]))
    [] m = "add_edge"    -> set(AddEdge(w, a[1], a[2], a[3]))
    [] m = "remove_edge" -> set(RemoveEdge(w, a[1], a[2]))
    [] m = "set_state"   -> set(SetState(w, a[1], a[2]))
    [] m = "set_weight"  -> set(SetWeight(w, a[1], a[2], a[3]))
    [] m = "clone"       -> [s EXCEPT !.gs = <<w, w>> \o Tail(@)]
Mut(s) ==
  (IF s.nid <= MaxNodes THEN {[m |-> "add_node", args |-> <<st>>] : st \in {0, 1}} ELSE {})
  \cup {[m |-> "remove_node", args |-> <<i>>] : i \in Ids}
  \cup {[m |-> "add_edge", args |-> <<o, d, W(k)>>] : o \in Ids, d \in Ids, k \in {1, 2}}
  \cup {[m |-> "remove_edge", args |-> <<o, d>>] : o \in Ids, d \in Ids}
  \cup {[m |-> "set_state", args |-> <<i, st>>] : i \in Ids, st \in {0, 1}}
  \cup {[m |-> "set_weight", args |-> <<o, d, W(2)>>] : o \in Ids, d \in Ids}
  \cup (IF Len(s.gs) < 2 THEN {[m |-> "clone", args |-> <<>>]} ELSE {})
Obs == {[m |-> "node_size", args |-> <<>>], [m |-> "edge_size", args |-> <<>>], [m |-> "filter", args |-> <<<<>>>>],
        [m |-> "filter", args |-> <<<<1>>>>], [m |-> "filter", args |-> <<<<0, 1, 1>>>>],
        [m |-> "diff", args |-> <<1>>], [m |-> "diff", args |-> <<0>>], [m |-> "eq", args |-> <<1>>],
        [m |-> "to_string", args |-> <<>>], [m |-> "diff_text", args |-> <<1>>], [m |-> "diff_text", args |-> <<0>>]}
       \cup {[m |-> "get_state", args |-> <<i>>] : i \in Ids}
       \cup {[m |-> "get_weight", args |-> <<o, d>>] : o \in Ids, d \in Ids}

Init == g = [gs |-> <<EmptyGraph>>, nid |-> 1] /\ hist = <<>>
Next == /\ Len(hist) < MaxOps
        /\ \E o \in Mut(g) : g' = GraphOpM(o.m, o.args, g) /\ hist' = hist \o <<o>>
Spec == Init /\ [][Next]_vars

Top == g.gs[1]
G12 == \A i \in 1..Len(g.gs) : GraphInv(g.gs[i])                             \* G1, G2 (and sortedness)
G3 == Len(Top.nodes) = Cardinality(NodeIds(Top)) /\ EdgeCount(Top) = Cardinality(EdgeSet(Top))
G4 == \A id \in NodeIds(Top) :
        /\ Range(Preds(Top, id, <<>>)) = {p[1] : p \in {q \in EdgeSet(Top) : q[2] = id}}
        /\ Range(Succs(Top, id, <<>>)) = {p[2] : p \in {q \in EdgeSet(Top) : q[1] = id}}
        /\ Range(Preds(Top, id, <<1>>)) = {p[1] : p \in {q \in EdgeSet(Top) : q[2] = id /\ StateOf(Top, q[1]) = 1}}
G4f == Range(Filter(Top, <<1>>)) = {id \in NodeIds(Top) : StateOf(Top, id) = 1} /\ Range(Filter(Top, <<>>)) = NodeIds(Top)
\* G7: the diff is empty exactly when nodes, states, edges and weights agree
SameAbstract(a, b) == /\ NodeIds(a) = NodeIds(b) /\ \A id \in NodeIds(a) : StateOf(a, id) = StateOf(b, id)
                      /\ EdgeSet(a) = EdgeSet(b) /\ \A p \in EdgeSet(a) : WeightOf(a, p[1], p[2]) = WeightOf(b, p[1], p[2])
G7 == Len(g.gs) = 2 => (Differ(g.gs[2], g.gs[1]) <=> ~SameAbstract(g.gs[2], g.gs[1]))
Emit == PrintT("CASE " \o ToJson([nid |-> 1, ops |-> hist \o SetAsSeq(Obs)]))
=============================================================================
