------------------------------- MODULE MC_Cost ------------------------------
(***************************************************************************)
(* Property C15 on the specification: which steps have a cost that        *)
(* follows an operand instead of the state?  CostInv must hold for every   *)
(* instruction that is NOT listed as a known finding; for the listed ones  *)
(* the unbounded cases are printed (predict = "unbounded") and replayed    *)
(* under supervision to document the finding.  The doubling programs       *)
(* (Grow) show that nothing enforces max_points_in_program: PointsInv is   *)
(* EXPECTED to be violated (run with that invariant in a separate config). *)
(***************************************************************************)
EXTENDS PushCost, Json
CONSTANTS Mode     \* "cost" | "grow"
VARIABLES st, ph
vars == <<st, ph>>

SizeLike == ListedUnbounded \cup {"CODE.RAND", "INTVECTOR.FROMINT", "INDEX.DEFINE", "BOOLVECTOR.GET", "CODE.NTH", "INTEGER.YANK",
                                  "LIST.GET", "EXEC.CMD", "GRAPH.NODE*HISTORY", "INTVECTOR.SET*INSERT", "CODE.EXTRACT"}
IntPool == {MinInt, -1, 0, 1, 3, 2000, 100000, MaxInt}
Ints == UNION {[1..k -> IntPool] : k \in 0..2} \cup {<<a, 2, 1, 5>> : a \in IntPool} \cup {<<5, a, 1, 2>> : a \in IntPool}
        \cup {<<a, 9, 3>> : a \in IntPool} \cup {<<a, 1, 1>> : a \in IntPool} \cup {<<3, 1, a>> : a \in IntPool}
        \* mid-range pairs (size, index, dimensions): each operand harmless alone
        \cup {<<a, 3, b>> : a \in {36, 64, 65, 100, 2000}, b \in {12, 16, 20, 36, 64, 65, 70, 100}}
        \* a size of one (or two) with every dimension count and index
        \cup {<<a, b, c>> : a \in {1, 2}, b \in {0, 1, MaxInt}, c \in IntPool}
        \* the same below a record position (LIST.NEIGHBOR*BVALS / IVALS / FVALS take four integers)
        \cup {<<0, a, 0, c>> : a \in {1, 2}, c \in IntPool} \cup {<<0, a, 3, b>> : a \in {36, 64, 100}, b \in {16, 64, 65, 70}}
Base == [EmptyState EXCEPT !.float = <<1056964608, FOne, FOne>>, !.code = <<IList(<<IInt(1), IBool(TRUE)>>)>>,
                           !.ivec = <<<<1, 2>>>>, !.bvec = <<<<TRUE>>>>, !.name = <<"true", "a">>, !.index = <<[cur |-> 0, dst |-> 1]>>]
Doubling == {<<IList(<<IIns("CODE.QUOTE"), IList(<<IInt(1)>>), IIns("EXEC.Y"), IList(<<IIns("CODE.DUP"), IIns("CODE.LIST")>>)>>)>>,
             <<IList(<<IIns("CODE.QUOTE"), IInt(1), IIns("EXEC.Y"), IList(<<IIns("CODE.DUP"), IIns("CODE.CONS")>>)>>)>>,
             <<IList(<<IIns("CODE.QUOTE"), IInt(1), IIns("EXEC.Y"), IList(<<IIns("CODE.DUP"), IIns("CODE.APPEND")>>)>>)>>}

Init == /\ ph = 0
        /\ IF Mode = "cost" THEN \E n \in SizeLike, iv \in Ints : st = [Base EXCEPT !.exec = <<IIns(n)>>, !.int = iv]
           ELSE \E p \in Doubling : st = [EmptyState EXCEPT !.exec = p, !.cfg = [@ EXCEPT !.max_prog_points = 20]]
Next == /\ Mode = "grow" /\ ph < 60 /\ st.exec # <<>>
        /\ st' = Step(st).res.post /\ ph' = ph + 1
Spec == Init /\ [][Next]_vars

Ins == st.exec[1].v
Body == PopN(st, "exec", 1)
CostInv == Mode = "cost" => (Unbounded(Ins, Body) => Ins \in ListedUnbounded)
PointsInv == Mode = "grow" => PointsBound(st)
Emit == Mode = "cost" => PrintT("CASE " \o ToJson([pre |-> st, predict |-> IF Unbounded(Ins, Body) THEN "unbounded" ELSE "bounded"]))
=============================================================================
