---------------------------- MODULE MC_ItemLaws -----------------------------
(***************************************************************************)
(* The equations of property C08 between SIZE / EXTRACT / INSERT /         *)
(* POSITION / CONTAINER / SUBST / DISCREPANCY, checked on the item algebra *)
(* of the specification for ALL trees up to a bounded number of points     *)
(* (and all pairs of such trees, all indices in [-2S, 2S]).                *)
(***************************************************************************)
EXTENDS PushFootprint
CONSTANTS MaxT, MaxU     \* points of the container tree / of the second tree
VARIABLES t, u, phase
vars == <<t, u, phase>>

AtomsT == {IInt(1), IId("a"), IInt(2)}
RECURSIVE TreesOf(_)
RECURSIVE KidSeqs(_)
KidSeqs(n) == IF n = 0 THEN {<<>>} ELSE UNION {{<<x>> \o rest : x \in TreesOf(k), rest \in KidSeqs(n - k)} : k \in 1..n}
TreesOf(n) == IF n = 1 THEN AtomsT \cup {EmptyList} ELSE {IList(ks) : ks \in KidSeqs(n - 1)}
Trees(n) == UNION {TreesOf(k) : k \in 1..n}

Init == phase = "pick" /\ t \in Trees(MaxT) /\ u = EmptyList
Next == phase = "pick" /\ phase' = "pair" /\ u' \in Trees(MaxU) /\ UNCHANGED t
Spec == Init /\ [][Next]_vars

S == Size(t)
Norm(i) == i % S
Pair == phase = "pair"
E1 == Pair => S = Len(Points(t))
E2 == Pair => \A i \in (-2 * S)..(2 * S) : Extract(t, Norm(i)) = Points(t)[Norm(i) + 1]
\* INSERT at i makes EXTRACT at i yield the inserted item, and changes nothing outside the replaced subtree
E3 == Pair => \A i \in 0..(S - 1) :
        LET r == InsertPt(t, u, i)
            old == Extract(t, i)
        IN /\ Extract(r, i) = u
           /\ Size(r) = S - Size(old) + Size(u)
           /\ \A j \in 0..(i - 1) : (j + Size(Extract(t, j)) <= i) => Extract(r, j) = Extract(t, j)     \* points before it, not enclosing it
           /\ \A j \in (i + Size(old))..(S - 1) : Extract(r, j - Size(old) + Size(u)) = Extract(t, j)   \* points after it
E4 == Pair => LET p == Position(t, u) IN
        /\ (p >= 0 => DeepEq(Extract(t, p), u) /\ \A q \in 0..(p - 1) : ~DeepEq(Extract(t, q), u))
        /\ (p = -1 <=> \A q \in 0..(S - 1) : ~DeepEq(Extract(t, q), u))
\* the container is a list of t that directly holds u, and no point before it in depth-first order does unless it encloses it
E5 == Pair => LET c == ContainerOf(t, u) IN
        /\ (c.found => c.item.k = "list" /\ (\E k \in 1..Len(c.item.v) : DeepEq(c.item.v[k], u)) /\ Occurs(t, c.item))
        /\ (~c.found <=> (DeepEq(t, u) \/ ~Occurs(t, u)))
E6 == Pair => LET r == Subst(t, u, IId("fresh")) IN
        /\ ~Occurs(r, u) \/ DeepEq(u, IId("fresh"))
        /\ (~Occurs(t, u) => r = t)
        /\ (DeepEq(t, u) => r = IId("fresh"))
E7 == Pair => Discrepancy(t, u) = Discrepancy(u, t) /\ Discrepancy(t, t) = 0 /\ Discrepancy(t, u) >= 0
\* CONS / CDR / CAR / LIST lose no atoms
E8 == Pair => /\ Len(Atoms(Cons(u, t))) = Len(Atoms(u)) + Len(Atoms(t))
              /\ Len(Atoms(IList(<<t, u>>))) = Len(Atoms(t)) + Len(Atoms(u))
=============================================================================
