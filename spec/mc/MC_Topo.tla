------------------------------- MODULE MC_Topo ------------------------------
(***************************************************************************)
(* Index topologies (property C20): exhaustive grid of total sizes,        *)
(* dimension counts, centres and radii.  T1..T6 are checked on the         *)
(* specification's integer-arithmetic neighbourhoods; every grid point is  *)
(* printed for replay through Topology::find_neighbors / decompose_index.  *)
(***************************************************************************)
EXTENDS PushContainers, Json
CONSTANTS MaxN, MaxD
VARIABLES n, d, c, r, phase
vars == <<n, d, c, r, phase>>

\* radius grid as float bit patterns: 0, 0.5, 1, 1.2, 1.41, 1.42, 1.5, 1.74, 2, 2.1, 3, 100
\* (lattice distances themselves and values just below / above sqrt 2 and sqrt 3)
Radii == <<0, 1056964608, 1065353215, 1065353216, 1067030938, 1068792545, 1068876431, 1069547520, 1071560786, 1073741823, 1073741824, 1074161254, 1077936127, 1077936128, 1120403456>>   \* incl. the largest floats below 1, 2 and 3
\* two phases so that the grid points are evaluated by TLC's worker threads
Init == phase = "pick" /\ n \in 1..MaxN /\ d \in 1..MaxD /\ c = 0 /\ r = 1
Next == phase = "pick" /\ phase' = "point" /\ c' \in 0..(n - 1) /\ r' \in 1..Len(Radii) /\ UNCHANGED <<n, d>>
Spec == Init /\ [][Next]_vars

NB(cc, rr) == Neighbors(n, d, cc, Radii[rr])
Determinate == phase = "point" => NB(c, r).lo = NB(c, r).hi                       \* the grid avoids radii within 2^-10 of a lattice distance
Ball == NB(c, r).lo
E == Edge(n, d)
T1 == phase = "point" => \E i \in 1..Len(Ball) : Ball[i] = c
T2 == phase = "point" => \A i \in 1..Len(Ball) : Ball[i] >= 0 /\ Ball[i] < n /\ (i < Len(Ball) => Ball[i] < Ball[i + 1])
T3 == phase = "point" => \A j \in 0..(n - 1) : (j \in Range(Ball)) <=> (c \in Range(NB(j, r).lo))
T4 == phase = "point" /\ r < Len(Radii) => Range(Ball) \subseteq Range(NB(c, r + 1).lo)
\* smallest enclosing hypercube, and decomposition is a bijection onto it
T5Body == /\ IPow(E, d) >= n /\ (E > 1 => IPow(E - 1, d) < n)
          /\ \A i, j \in 0..(Min2(IPow(E, d), 200) - 1) : Decompose(i, E, d) = Decompose(j, E, d) => i = j
          /\ \A i \in 0..(n - 1) : \A k \in 1..d : Decompose(i, E, d)[k] \in 0..(E - 1)
T5 == phase = "point" => T5Body
\* brute-force ball with the radius as an exact rational where it is one (0, 1/2, 1, 3/2, 2, 3, 100); for the largest floats
\* below 1, 2 and 3 any rational strictly between the neighbouring lattice distances decides the same integer distances
ExactR == [x \in {1, 2, 3, 4, 6, 7, 8, 9, 10, 11, 13, 14, 15} |->
             CASE x = 1 -> <<0, 1>> [] x = 2 -> <<1, 2>> [] x = 3 -> <<999, 1000>> [] x = 4 -> <<1, 1>> [] x = 6 -> <<141, 100>> [] x = 7 -> <<142, 100>>
               [] x = 8 -> <<3, 2>> [] x = 9 -> <<174, 100>> [] x = 10 -> <<1999, 1000>> [] x = 11 -> <<2, 1>> [] x = 13 -> <<2999, 1000>> [] x = 14 -> <<3, 1>> [] x = 15 -> <<100, 1>>]
T6 == phase = "point" /\ r \in DOMAIN ExactR =>
        Range(Ball) = {j \in 0..(n - 1) : Dist2(Decompose(c, E, d), Decompose(j, E, d)) * ExactR[r][2] * ExactR[r][2] <= ExactR[r][1] * ExactR[r][1]}
Emit == phase = "point" => PrintT("CASE " \o ToJson([ops |-> <<[m |-> "find_neighbors", args |-> <<n, d, c, Radii[r]>>],
                                            [m |-> "decompose_index", args |-> <<c, E, d>>]>>]))
=============================================================================
