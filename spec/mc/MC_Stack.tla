------------------------------ MODULE MC_Stack ------------------------------
(***************************************************************************)
(* Complete state graph of the generic stack container (property C16) over *)
(* a small element set: every stack of length <= MaxLen x every public     *)
(* method x every position 0..len+2.  Laws of a plain sequence are checked *)
(* on every transition; every transition is printed for replay.            *)
(***************************************************************************)
EXTENDS PushContainers, Json
CONSTANTS Elem, MaxLen
VARIABLES s, op, phase
vars == <<s, op, phase>>

Elems == IF Elem = "int" THEN {1, 2, 3}
         \* floats (bit patterns): 1.21 and 1.25 print alike on a stack ("1.2"), the two zeros are ==, NaN equals nothing
         ELSE IF Elem = "float" THEN {1067114824, 1067450368, 0, -2147483647 - 1, 2143289344}
         \* two items that print alike; two lists that differ only deep inside
         \* ... and a name whose text is not ASCII
         ELSE {IId("NOOP"), IIns("NOOP"), IList(<<IInt(1), IList(<<IInt(2)>>)>>), IList(<<IInt(1), IList(<<IInt(3)>>)>>), IId("é")}
SeqsUpTo(S, d) == UNION {[1..k -> S] : k \in 0..d}
Pos(st) == 0..(Len(st) + 2)
Ops(st) ==
  {[m |-> m, args |-> <<>>] : m \in {"to_string", "size", "bottom_mut", "flush", "reverse", "pop_front", "pop", "clone"}}
  \cup {[m |-> m, args |-> <<i>>] : m \in {"remove", "get", "get_mut", "copy", "yank", "shove", "pop_vec", "copy_vec"}, i \in Pos(st)}
  \cup {[m |-> m, args |-> <<x>>] : m \in {"last_eq", "push", "push_front"}, x \in Elems}
  \cup {[m |-> m, args |-> <<i, x>>] : m \in {"equal_at", "replace"}, i \in Pos(st), x \in Elems}
  \cup {[m |-> m, args |-> <<v>>] : m \in {"push_vec", "from_vec", "clone_from"}, v \in SeqsUpTo(Elems, 2)}

Init == phase = "pre" /\ s \in SeqsUpTo(Elems, MaxLen) /\ op \in Ops(s)
Next == phase = "pre" /\ phase' = "post" /\ s' = StackOp(Elem, op.m, op.args, s).post /\ UNCHANGED op
Spec == Init /\ [][Next]_vars

R == StackOp(Elem, op.m, op.args, s)
Bag(q) == [x \in Range(q) |-> CountIn(q, x)]
Laws ==
  phase = "pre" =>
    LET m == op.m  a == op.args  n == Len(s) IN
    /\ (m \in {"yank", "shove", "reverse"} => Bag(R.post) = Bag(s))                       \* permutations
    /\ (m \in {"to_string", "size", "last_eq", "equal_at", "bottom_mut", "get", "get_mut", "copy", "copy_vec", "clone"}
          => R.post = s)                                                                  \* observers
    /\ (m \in {"get", "get_mut", "copy", "equal_at"} /\ a[1] >= n => R.ret = RNone)       \* S1: absent, never fails
    /\ (m = "replace" /\ a[1] >= n => R.ret.t = "err" /\ R.ret.v = a[1] - n + 1 /\ R.post = s)
    /\ (m = "pop_vec" /\ R.ret.t = "some" => Rev(R.ret.v) \o R.post = s)                  \* nothing lost
    /\ (m = "pop_vec" /\ R.ret.t = "none" => R.post = s /\ a[1] > n)
    /\ (m = "push" => Tail(R.post) = s /\ R.post[1] = a[1])
    /\ (m = "push_front" => Front(R.post) = s /\ Last(R.post) = a[1])
    /\ (m = "push_vec" => StackOp(Elem, "pop_vec", <<Len(a[1])>>, R.post).ret = RSome(a[1]))   \* round trip
    /\ (m = "yank" /\ a[1] > 0 /\ a[1] < n => R.post[1] = s[a[1] + 1])
    /\ (m = "shove" /\ a[1] > 0 /\ a[1] < n => R.post[a[1] + 1] = s[1])
    /\ (m = "remove" => Len(R.post) = (IF a[1] < n THEN n - 1 ELSE n))
Emit == phase = "pre" => PrintT("CASE " \o ToJson([init |-> s, ops |-> <<op>>]))
=============================================================================
