------------------------------ MODULE MC_Parser -----------------------------
(***************************************************************************)
(* The parser on all token strings up to a bounded length over an alphabet *)
(* that contains every token class (property C03), and the print / parse   *)
(* round trip on all small trees (property C11).                           *)
(***************************************************************************)
EXTENDS PushParser, Json
CONSTANTS MaxToks,   \* token strings of length <= MaxToks
          MaxPoints  \* trees with <= MaxPoints points
VARIABLES toks, tree, phase
vars == <<toks, tree, phase>>

Alphabet == {"(", ")", "1", "-7", "TRUE", "foo", "INTEGER.+", "1.5", "INT[1,2]", "BOOL[1,x]", "INT[", "FLOAT[0.5,2]",
             "2147483648", "FALSE"}
WS == AsciiWS
Instrs == KnownInstr

\* all trees with exactly n points over three atoms
AtomsT == {IInt(3), IBool(TRUE), IId("foo"), IIns("CODE.DUP"), IInt(-2)}
RECURSIVE TreesOf(_)
RECURSIVE KidSeqs(_)
\* sequences of trees whose sizes add up to n
KidSeqs(n) == IF n = 0 THEN {<<>>}
              ELSE UNION {{<<t>> \o rest : t \in TreesOf(k), rest \in KidSeqs(n - k)} : k \in 1..n}
TreesOf(n) == IF n = 1 THEN AtomsT \cup {EmptyList}
              ELSE {IList(ks) : ks \in KidSeqs(n - 1)}
NoneTree == IInt(0)

Init == /\ phase = "pick"
        /\ \/ (toks \in [1..1 -> Alphabet] \cup {<<>>} /\ tree = NoneTree)
           \/ (toks = <<"tree">> /\ tree \in UNION {TreesOf(n) : n \in 1..MaxPoints})
Extend == /\ phase = "pick" /\ toks # <<"tree">> /\ toks # <<>>
          /\ \E rest \in UNION {[1..k -> Alphabet] : k \in 0..(MaxToks - 1)} : toks' = toks \o rest
          /\ phase' = "case" /\ UNCHANGED tree
Next == Extend
Spec == Init /\ [][Next]_vars

IsTokCase == phase = "case" \/ (phase = "pick" /\ toks = <<>>)
IsTreeCase == toks = <<"tree">>
Text == JoinStr(toks, " ")
R == Parse(Text, <<>>, Instrs, WS)
\* in the model a malformed vector literal is dropped (C03); the trace specification also admits the lenient reading
Dropped(t) == LET c == Classify(t, Instrs) IN c.kind = "item" /\ c.item.k = "optvec"
RECURSIVE StripOpt(_)
StripOpt(seq) == FlatSeq([i \in 1..Len(seq) |->
                   IF seq[i].k = "optvec" THEN <<>>
                   ELSE IF seq[i].k = "list" THEN <<[seq[i] EXCEPT !.v = StripOpt(seq[i].v)]>>
                   ELSE <<seq[i]>>])
Kept == SelectSeq(toks, LAMBDA t : ~Dropped(t))
\* canonical text of a kept token (how the printer would show the parsed item)
Canon(t) == CASE t = "2147483648" -> "?" [] t = "1.5" -> "?" [] t = "FLOAT[0.5,2]" -> "?" [] OTHER -> t
RECURSIVE RenderP(_)
RenderP(t) == IF t.k \in {"floatany", "fvecp", "float"} THEN "?"
              ELSE IF t.k = "list" THEN (IF t.v = <<>> THEN "( )" ELSE "( " \o JoinStr([i \in 1..Len(t.v) |-> RenderP(t.v[i])], " ") \o " )")
              ELSE Render(t)
\* P2: a balanced, complete program parses to exactly its token tree, first token on top
P2 == IsTokCase /\ R.balanced /\ R.depth = 0 =>
        JoinStr([i \in 1..Len(StripOpt(R.exec)) |-> RenderP(StripOpt(R.exec)[i])], " ") = JoinStr([i \in 1..Len(Kept) |-> Canon(Kept[i])], " ")
\* P4: a malformed vector literal is dropped without disturbing its neighbours
P4 == IsTokCase => LET R2 == Parse(JoinStr(Kept, " "), <<>>, Instrs, WS) IN R2.exec = StripOpt(R.exec) /\ R2.balanced = R.balanced
\* P3 (and C11 on the specification): parse(render(t)) = t and print(parse(print(t))) = print(t)
P3 == IsTreeCase => /\ Parse(Render(tree), <<>>, Instrs, WS).exec = <<tree>>
                    /\ Parse(PrintItem(tree), <<>>, Instrs, WS).exec = <<tree>>
EmitToks == IsTokCase => PrintT("CASE " \o ToJson([text |-> Text]))
EmitTree == IsTreeCase => PrintT("CASE " \o ToJson([tree |-> tree]))
=============================================================================
