------------------------------- MODULE MC_Run -------------------------------
(***************************************************************************)
(* Bounded model of the run loop (property C02): a catalogue of tiny       *)
(* programs (terminating, diverging, exploding) x step limits x growth     *)
(* caps, run by the loop machine of PushInterp.  R1..R6 are checked in     *)
(* every state; every finished run is printed as a case for replay.        *)
(***************************************************************************)
EXTENDS PushFootprint, Json
CONSTANTS MaxLimit, MaxCap
VARIABLES st, rl, init, hist       \* hist: number of Step transitions actually taken (history)
vars == <<st, rl, init, hist>>

I(x) == IIns(x)
Lits(k) == [i \in 1..k |-> IInt(i)]
Programs ==
  {<<IList(Lits(k))>> : k \in 0..5}                              \* terminating, one unpack that grows by k-1
  \cup {Lits(k) : k \in 0..3}                                    \* terminating, no list
  \cup {<<IList(<<I("EXEC.Y"), I("NOOP")>>)>>}                   \* diverges with constant size
  \cup {<<IList(<<I("EXEC.Y"), I("EXEC.DUP")>>)>>}               \* diverges and grows by one per round
  \cup {<<IInt(1), IList(<<IInt(2), IInt(3), IInt(4)>>), I("INTEGER.+")>>}
  \cup {<<IList(<<IInt(3), I("INDEX.DEFINE"), I("EXEC.LOOP"), I("NOOP")>>)>>}

\* the CODE stack may already hold the program (a second run on the same state)
Init == /\ \E p \in Programs, lim \in (-1)..MaxLimit, cap \in 0..MaxCap, again \in BOOLEAN :
             st = [EmptyState EXCEPT !.exec = p, !.code = (IF again THEN p ELSE <<>>) \o <<IId("old")>>,
                                     !.cfg = [@ EXCEPT !.push_limit = lim, !.growth_cap = cap]]
        /\ init = st /\ rl = RunInit /\ hist = 0
Start == /\ rl.pc = "start"
         /\ LET r == RunStart(st, rl) IN st' = r.st /\ rl' = r.rl
         /\ UNCHANGED <<init, hist>>
Iter  == /\ rl.pc = "head"
         /\ LET r == RunIter(st, rl) IN
            /\ st' = r.st /\ rl' = r.rl
            /\ hist' = IF r.st = st /\ r.rl.pc = "done" /\ r.rl.outcome # "GrowthCapExceeded" THEN hist ELSE hist + 1
         /\ UNCHANGED init
Next == Start \/ Iter
Spec == Init /\ [][Next]_vars /\ WF_vars(Next)

RECURSIVE IterStep(_, _)
IterStep(s, k) == IF k = 0 THEN s ELSE IterStep(Step(s).res.post, k - 1)
\* number of steps until EXEC is empty, or -1 if more than bound
RECURSIVE StepsToEmpty(_, _, _)
StepsToEmpty(s, k, bound) == IF s.exec = <<>> THEN k ELSE IF k >= bound THEN -1
                             ELSE StepsToEmpty(Step(s).res.post, k + 1, bound)

Done == rl.pc = "done"
Limit == init.cfg.push_limit
R1 == Done /\ rl.outcome = "NoErrors" => st.exec = <<>>
R2 == Done /\ rl.outcome = "StepLimitExceeded" =>
        /\ rl.steps = Max2(Limit, -1) + 1 /\ hist = rl.steps
        /\ LET need == StepsToEmpty(CopyToCode(init), 0, MaxLimit + 2) IN ~(need >= 0 /\ need < Limit)
R3 == Done /\ rl.outcome = "GrowthCapExceeded" =>
        StateSize(st) > StateSize(IterStep(CopyToCode(init), hist - 1)) + init.cfg.growth_cap
R3b == Done /\ rl.outcome # "GrowthCapExceeded" =>
        \A k \in 1..hist : StateSize(IterStep(CopyToCode(init), k)) <= StateSize(IterStep(CopyToCode(init), k - 1)) + init.cfg.growth_cap
R4 == rl.pc # "start" /\ hist = 0 => st.code = init.exec \o init.code
R5 == rl.pc # "start" => st = IterStep(CopyToCode(init), hist)
R6 == st.exec = <<>> => Step(st).done /\ Step(st).res.post = st
StepsBounded == hist <= Max2(Limit, -1) + 1
Terminates == <>Done
Emit == Done => PrintT("CASE " \o ToJson([pre |-> init, xout |-> rl.outcome, xsteps |-> hist]))
=============================================================================
