------------------------------- MODULE Trace -------------------------------
(***************************************************************************)
(* Trace validation: every event recorded from the real pushr code must be *)
(* a transition the specification allows.  TraceNext is total: it          *)
(* classifies each event instead of blocking, so that one rejected event   *)
(* never hides the rest of the trace.  One line is printed per event that  *)
(* is not explained by the ideal specification.                            *)
(***************************************************************************)
EXTENDS PushInterp, Json, IOUtils

Rec == ndJsonDeserialize(IOEnv.TRACE)

VARIABLES l, cur
vars == <<l, cur>>

HasF(r, f) == f \in DOMAIN r
Crashed(e) == HasF(e.post, "crash")

\* instruction (or step kind) an event is about, for attribution
Subject(pre, act) ==
  IF act.a = "step" THEN
     (IF pre.exec # <<>> /\ pre.exec[1].k = "ins" THEN pre.exec[1].v ELSE "step:" \o StepKind(pre))
  ELSE act.a

JudgeStep(e, pre) ==
  LET sr == Step(pre) IN
  IF Crashed(e) THEN [v |-> "crash", subj |-> Subject(pre, e.act), fields |-> <<>>, msg |-> e.post.msg]
  ELSE IF Matches(sr.res, e.post) /\ e.ret = sr.done
       THEN [v |-> "ok", subj |-> Subject(pre, e.act), fields |-> <<>>, msg |-> ""]
  ELSE [v |-> "mismatch", subj |-> Subject(pre, e.act),
        fields |-> SetAsSeq(Mismatch(sr.res, e.post)), msg |-> ""]

Judge(e, pre) ==
  CASE e.act.a = "step" -> JudgeStep(e, pre)
    [] OTHER -> [v |-> "unknown-act", subj |-> e.act.a, fields |-> <<>>, msg |-> ""]

Init == l = 1 /\ cur = EmptyState

Consume ==
  /\ l <= Len(Rec)
  /\ LET e   == Rec[l]
         pre == IF HasF(e, "pre") THEN e.pre ELSE cur
         j   == Judge(e, pre)
     IN /\ (j.v # "ok" => PrintT("EV " \o ToJson([l |-> l, id |-> e.id, i |-> e.i, j |-> j])))
        /\ cur' = IF Crashed(e) THEN EmptyState ELSE e.post
  /\ l' = l + 1

Finish == l = Len(Rec) + 1 /\ PrintT("DONE " \o ToString(Len(Rec))) /\ l' = l + 1 /\ UNCHANGED cur

Next == Consume \/ Finish
Spec == Init /\ [][Next]_vars
=============================================================================
