------------------------------- MODULE Trace -------------------------------
(***************************************************************************)
(* Trace validation: every event recorded from the real pushr code must be *)
(* a transition the specification allows.  TraceNext is total: it          *)
(* classifies each event instead of blocking, so that one rejected event   *)
(* never hides the rest of the trace.  One line is printed per event that  *)
(* is not explained by the ideal specification.                            *)
(***************************************************************************)
EXTENDS Deviations, Json, IOUtils

Rec == ndJsonDeserialize(IOEnv.TRACE)

VARIABLES l, cur
vars == <<l, cur>>

HasF(r, f) == f \in DOMAIN r
Crashed(e) == HasF(e.post, "crash")

\* instruction (or step kind) an event is about, for attribution
Subject(pre, act) ==
  IF act.a = "step" THEN
     (IF pre.exec # <<>> /\ pre.exec[1].k = "ins" THEN pre.exec[1].v ELSE "step:" \o StepKind(pre))
  ELSE act.a

\* property that owns the value semantics of a step subject (verdict ownership, DESIGN 5)
Owner(subj) ==
  IF subj \in StackOpNames THEN
     (IF StackOpOf[subj][2] = "DEFINE" THEN "C07" ELSE "C05")
  ELSE IF subj \in {"CODE.DEFINITION", "NAME.QUOTE", "step:quoted", "step:bound", "step:free"} THEN "C07"
  ELSE IF subj \in ScalarInstr \cup {"CODE.FROMBOOLEAN", "CODE.FROMFLOAT", "CODE.FROMINTEGER", "CODE.FROMNAME"} THEN "C04"
  ELSE IF subj \in {"CODE.DO", "CODE.DO*", "CODE.IF", "CODE.LOOP", "CODE.QUOTE", "INTVECTOR.LOOP",
                    "step:list", "step:literal", "step:empty", "step:unknown", "NOOP", "CODE.NOOP",
                    "VERIF.PROBE", "VERIF.SLEEP"}
          \cup ExecInstr \cup IndexInstr THEN "C06"
  ELSE IF subj = "CODE.RAND" THEN "C12"
  ELSE IF subj \in CodeInstr THEN "C08"
  ELSE IF subj \in VectorInstr THEN "C09"
  ELSE IF subj \in {"LIST.NEIGHBOR*IDS", "LIST.NEIGHBOR*BVALS", "LIST.NEIGHBOR*IVALS", "LIST.NEIGHBOR*FVALS"} THEN "C20"
  ELSE IF subj \in ListInstr THEN "C19"
  ELSE IF subj \in IOInstr THEN "C17"
  ELSE IF subj \in GraphInstr THEN "C18"
  ELSE IF subj \in RandInstr THEN "C13"
  ELSE "C06"

\* the first deviation that explains the observation, or ""
RECURSIVE FirstDev(_, _)
FirstDev(devs, e) ==
  IF devs = <<>> THEN ""
  ELSE LET d == Head(devs) IN
       IF (d.crash /\ Crashed(e)) \/ (~d.crash /\ ~Crashed(e) /\ Matches(d.res, e.post)) THEN d.id
       ELSE FirstDev(Tail(devs), e)

\* C10 is judged on its own predicate, independently of whether the values are right
FrameJudge(e, pre, sr) ==
  IF Crashed(e) \/ sr.kind # "instr" THEN <<>>
  ELSE SetAsSeq(FrameViolations(pre.exec[1].v, PopN(pre, "exec", 1), e.post, sr.res.fired))

JudgeStep(e, pre) ==
  LET sr   == Step(pre)
      subj == Subject(pre, e.act)
      ok   == ~Crashed(e) /\ Matches(sr.res, e.post) /\ e.ret = sr.done
      dev  == IF ok THEN "" ELSE FirstDev(DevStep(pre), e)
  IN [v |-> IF ok THEN "ok" ELSE IF dev # "" THEN "dev" ELSE IF Crashed(e) THEN "crash" ELSE "mismatch",
      subj |-> subj, owner |-> Owner(subj), dev |-> dev,
      fields |-> IF ok \/ Crashed(e) THEN <<>> ELSE SetAsSeq(Mismatch(sr.res, e.post)),
      frame |-> IF dev # "" THEN <<>> ELSE FrameJudge(e, pre, sr),
      msg |-> IF Crashed(e) THEN e.post.msg ELSE ""]

Blank(v, subj) == [v |-> v, subj |-> subj, owner |-> "", dev |-> "", fields |-> <<>>, frame |-> <<>>, msg |-> ""]
Judge(e, pre) ==
  CASE HasF(e, "envelope") -> Blank("envelope", e.envelope)
    [] e.act.a = "step" -> JudgeStep(e, pre)
    [] OTHER -> Blank("unknown-act", e.act.a)

Init == l = 1 /\ cur = EmptyState

Consume ==
  /\ l <= Len(Rec)
  /\ LET e   == Rec[l]
         pre == IF HasF(e, "pre") THEN e.pre ELSE cur
         j   == Judge(e, pre)
     IN /\ ((j.v # "ok" \/ j.frame # <<>>) => PrintT("EV " \o ToJson([l |-> l, id |-> e.id, i |-> e.i, j |-> j])))
        /\ cur' = IF Crashed(e) THEN EmptyState ELSE e.post
  /\ l' = l + 1

Finish == l = Len(Rec) + 1 /\ PrintT("DONE " \o ToString(Len(Rec))) /\ l' = l + 1 /\ UNCHANGED cur

Next == Consume \/ Finish
Spec == Init /\ [][Next]_vars
=============================================================================
