------------------------------- MODULE Trace -------------------------------
(***************************************************************************)
(* Trace validation: every event recorded from the real pushr code must be *)
(* a transition the specification allows.  TraceNext is total: it          *)
(* classifies each event instead of blocking, so that one rejected event   *)
(* never hides the rest of the trace.  One line is printed per event that  *)
(* is not explained by the ideal specification.                            *)
(***************************************************************************)
EXTENDS Deviations, PushText, PushCost, Json, IOUtils

Rec == ndJsonDeserialize(IOEnv.TRACE)

HasF(r, f) == f \in DOMAIN r
Crashed(e) == HasF(e.post, "crash")

\* instruction (or step kind) an event is about, for attribution
Subject(pre, act) ==
  IF act.a = "step" THEN
     (IF pre.exec # <<>> /\ pre.exec[1].k = "ins" THEN pre.exec[1].v ELSE "step:" \o StepKind(pre))
  ELSE act.a

\* property that owns the value semantics of a step subject (verdict ownership, DESIGN 5)
Owner(subj) ==
  IF subj \in StackOpNames THEN
     (IF StackOpOf[subj][2] = "DEFINE" THEN "C07" ELSE "C05")
  ELSE IF subj \in {"CODE.DEFINITION", "NAME.QUOTE", "step:quoted", "step:bound", "step:free"} THEN "C07"
  ELSE IF subj = "step:empty" THEN "C02"        \* "a step on an empty EXEC stack reports completion and changes nothing"
  ELSE IF subj \in ScalarInstr \cup {"CODE.FROMBOOLEAN", "CODE.FROMFLOAT", "CODE.FROMINTEGER", "CODE.FROMNAME"} THEN "C04"
  ELSE IF subj \in {"CODE.DO", "CODE.DO*", "CODE.IF", "CODE.LOOP", "CODE.QUOTE", "INTVECTOR.LOOP",
                    "step:list", "step:literal", "step:unknown", "NOOP", "CODE.NOOP",
                    "VERIF.PROBE", "VERIF.SLEEP"}
          \cup HarnessInstr \cup ExecInstr \cup IndexInstr THEN "C06"
  ELSE IF subj = "CODE.RAND" THEN "C12"
  ELSE IF subj \in CodeInstr THEN "C08"
  ELSE IF subj \in VectorInstr THEN "C09"
  ELSE IF subj \in {"LIST.NEIGHBOR*IDS", "LIST.NEIGHBOR*BVALS", "LIST.NEIGHBOR*IVALS", "LIST.NEIGHBOR*FVALS"} THEN "C20"
  ELSE IF subj \in ListInstr THEN "C19"
  ELSE IF subj \in IOInstr THEN "C17"
  ELSE IF subj \in GraphInstr THEN "C18"
  ELSE IF subj \in RandInstr THEN "C13"
  ELSE "C06"

\* the first deviation that explains the observation, or ""
RECURSIVE FirstDev(_, _)
FirstDev(devs, e) ==
  IF devs = <<>> THEN ""
  ELSE LET d == Head(devs) IN
       IF (d.crash /\ Crashed(e)) \/ (~d.crash /\ ~Crashed(e) /\ Matches(d.res, e.post)) THEN d.id
       ELSE FirstDev(Tail(devs), e)

\* C10 is judged on its own predicate, independently of whether the values are right
\* fields a non-instruction step may change
KindWrites(kind, item) ==
  CASE kind = "empty" -> {}
    [] kind = "list" -> {"exec"}
    [] kind = "unknown" -> {"exec", "name", "quote"}       \* dropped, or treated like the name it spells (see UnknownAsName)
    [] kind = "quoted" -> {"exec", "name", "quote"}
    [] kind = "bound" -> {"exec"}
    [] kind = "free" -> {"exec", "name"}
    [] kind = "literal" -> {"exec", LiteralField(item.k)}
    [] OTHER -> AllFields
FrameJudge(e, pre, sr) ==
  IF Crashed(e) THEN <<>>
  ELSE IF sr.kind = "instr"
  THEN SetAsSeq(FrameViolations(pre.exec[1].v, PopN(pre, "exec", 1), e.post, sr.res.fired))
  ELSE SetAsSeq({f \in AllFields \ KindWrites(sr.kind, IF pre.exec = <<>> THEN EmptyList ELSE pre.exec[1]) : e.post[f] # pre[f]})

\* an instruction item whose name the running instruction set does not know (no parser produces one for the set it is run
\* with): the implementation drops it; treating it like the name it spells is as good (no property speaks of it)
UnknownAsName(s) ==
  LET t == s.exec[1]  r == PopN(s, "exec", 1) IN
  IF s.quote THEN Fired([PushOn(r, "name", t.v) EXCEPT !.quote = FALSE])
  ELSE IF t.v \in DOMAIN s.bind THEN Fired(PushOn(r, "exec", s.bind[t.v]))
  ELSE Fired(PushOn(r, "name", t.v))
JudgeStep(e, pre) ==
  LET sr   == Step(pre)
      subj == Subject(pre, e.act)
      \* a step the specification leaves unfired (missing operand, failed documented guard) is free in how many of its
      \* operands it has consumed (C10: "may at most have consumed operands it had already taken"): any post-state
      \* within the unfired clause of the frame condition is accepted, not only the one the implementation produces today
      lax  == sr.kind = "instr" /\ ~sr.res.fired /\ ~Crashed(e) /\ FrameOK(pre.exec[1].v, PopN(pre, "exec", 1), e.post, FALSE)
      alts == IF sr.kind = "instr" THEN AltRand(pre.exec[1].v, PopN(pre, "exec", 1))
              ELSE IF sr.kind = "unknown" THEN <<UnknownAsName(pre)>> ELSE <<>>
      \* step() "returns true if the execution stack is empty": on an empty stack (C02's clause), and - the other reading of its
      \* doc comment - possibly already when the step it executed has emptied it; never while items are left
      retok == IF sr.done THEN e.ret = TRUE ELSE (e.ret = FALSE \/ (e.ret = TRUE /\ ~Crashed(e) /\ e.post.exec = <<>>))
      ok   == ~Crashed(e) /\ (Matches(sr.res, e.post) \/ lax \/ \E k \in 1..Len(alts) : Matches(alts[k], e.post)) /\ retok
      dev  == IF ok THEN "" ELSE FirstDev(DevStep(pre), e)
  IN [v |-> IF ok THEN "ok" ELSE IF dev # "" THEN "dev" ELSE IF Crashed(e) THEN "crash" ELSE "mismatch",
      subj |-> subj, owner |-> Owner(subj), dev |-> dev,
      fields |-> IF ok \/ Crashed(e) THEN <<>> ELSE SetAsSeq(Mismatch(sr.res, e.post)),
      frame |-> IF dev # "" THEN <<>> ELSE FrameJudge(e, pre, sr),
      msg |-> IF Crashed(e) THEN e.post.msg ELSE ""]

Blank(v, subj) == [v |-> v, subj |-> subj, owner |-> "", dev |-> "", fields |-> <<>>, frame |-> <<>>, msg |-> ""]
Verdict(v, subj, owner, fields, msg) ==
  [v |-> v, subj |-> subj, owner |-> owner, dev |-> "", fields |-> fields, frame |-> <<>>, msg |-> msg]

\* what the harness probe instruction records: INDEX.CURRENT of the top index (-1 if none) and the top INTEGER
ProbeTick(s) == [cur |-> IF s.index = <<>> THEN -1 ELSE s.index[1].cur,
                 has |-> s.int # <<>>, int |-> IF s.int = <<>> THEN 0 ELSE s.int[1]]
ExpectedTicks(pre) == IF pre.exec # <<>> /\ pre.exec[1] = IIns("VERIF.PROBE") THEN <<ProbeTick(pre)>> ELSE <<>>
TicksOf(e) == IF HasF(e, "ticks") THEN e.ticks ELSE <<>>

\* extended coverage of a step that matched: what GRAPH.PRINT / GRAPH.PRINT*DIFF wrote (PushGraphText)
GraphTextBad(e, pre) ==
  /\ pre.exec # <<>> /\ pre.exec[1].k = "ins" /\ pre.exec[1].v \in {"GRAPH.PRINT", "GRAPH.PRINT*DIFF"}
  /\ ~Crashed(e) /\ Len(e.post.name) = Len(pre.name) + 1
  /\ IF pre.exec[1].v = "GRAPH.PRINT" THEN pre.graph # <<>> /\ ~TextOK(e.post.name[1], pre.graph[1])
     ELSE Len(pre.graph) >= 2 /\ ~DiffTextOK(e.post.name[1], pre.graph[2], pre.graph[1])
JudgeStepT(e, pre) ==
  IF StepKind(pre) = "extra"          \* a registered instruction the specification says nothing about: only a crash is judged
  THEN (IF Crashed(e) THEN Verdict("crash", pre.exec[1].v, "C01", <<>>, e.post.msg)
        ELSE Verdict("mismatch", pre.exec[1].v, "EXT", <<>>, "registered instruction without a specification: the step is not judged"))
  ELSE
  LET j == JudgeStep(e, pre) IN
  IF j.v = "ok" /\ TicksOf(e) # ExpectedTicks(pre)
  THEN Verdict("mismatch", j.subj, "C06", <<"ticks">>, "probe log differs from the specification")
  ELSE IF j.v = "ok" /\ GraphTextBad(e, pre)
  THEN [j EXCEPT !.v = "mismatch", !.owner = "EXT", !.fields = <<"name">>,      \* keeps the frame judgement of j
                 !.msg = "the text does not list exactly the nodes / edges / changes of the model (lines, counts)"]
  ELSE j

\* copying the program to the CODE stack keeps its order (the top of EXEC becomes the top of CODE)
JudgeCopy(e, pre) ==
  IF Crashed(e) THEN Verdict("crash", "copy_to_code", "C02", <<>>, e.post.msg)
  ELSE IF e.post = [pre EXCEPT !.code = pre.exec \o pre.code] THEN Blank("ok", "copy_to_code")
  ELSE Verdict("mismatch", "copy_to_code", "C02", <<"code">>, "")

\* behaviour-level expectation of a case (emitted by TLC from the bounded behaviour model):
\* the complete probe log and the final contents of some fields
JudgeEnd(e, tainted) ==
  IF tainted THEN Blank("ok", "end")
  ELSE LET x == e.expect
           badT == HasF(x, "ticks") /\ x.ticks # e.all_ticks
           badF == {x.fields[i][1] : i \in {k \in 1..Len(x.fields) : e.post[x.fields[k][1]] # x.fields[k][2]}}
       IN IF ~badT /\ badF = {} THEN Blank("ok", "end")
          ELSE Verdict("mismatch", "end:" \o x.what, x.owner, SetAsSeq(badF) \o (IF badT THEN <<"ticks">> ELSE <<>>),
                       "behaviour differs from the expectation TLC derived from the specification")

\* the run loop fed with the recorded single steps: ch[1] = state after copy_to_code, ch[j+1] after j steps
RECURSIVE RunMachine(_, _, _, _)
RunMachine(ch, s, limit, cap) ==
  IF s > limit THEN [out |-> "StepLimitExceeded", fin |-> ch[s + 1].st, steps |-> s]
  ELSE IF s + 1 > Len(ch) THEN [out |-> "undetermined", fin |-> ch[1].st, steps |-> s]
  \* the limits in force are those of the current state: once a step has set the time limit to 0, no time is left
  \* (a limit that is 0 from the start is left to the one-sided rules of JudgeRun)
  ELSE IF s >= 1 /\ ch[s + 1].st.cfg.time_limit = 0 /\ ch[s].st.cfg.time_limit # 0
       THEN [out |-> "TimeLimitExceeded", fin |-> ch[s + 1].st, steps |-> s]
  \* the run ends with NoErrors when the next step finds EXEC empty (decided on the recorded STATE, not on the value the
  \* single steps returned: that value is judged by JudgeStep)
  ELSE IF ch[s + 1].st.exec = <<>> THEN [out |-> "NoErrors", fin |-> ch[s + 1].st, steps |-> s]
  ELSE IF s + 2 > Len(ch) THEN [out |-> "undetermined", fin |-> ch[1].st, steps |-> s]
  ELSE IF cap >= 0 /\ StateSize(ch[s + 2].st) > StateSize(ch[s + 1].st) + cap      \* (negative: a cap beyond 32 bits)
       THEN [out |-> "GrowthCapExceeded", fin |-> ch[s + 2].st, steps |-> s + 1]
  ELSE RunMachine(ch, s + 1, limit, cap)

SleepMs == 40    \* duration of the harness instruction VERIF.SLEEP
JudgeRun(e, ch, tainted) ==
  IF Crashed(e) THEN Verdict("crash", "run", "C02", <<>>, e.post.msg)
  ELSE IF tainted \/ Len(ch) < 2 THEN Blank("ok", "run")
  ELSE LET c2 == SubSeq(ch, 2, Len(ch))       \* drop the state before copy_to_code
           cfg == c2[1].st.cfg
           m  == RunMachine(c2, 0, cfg.push_limit, cfg.growth_cap)
           \* C02 leaves the boundary open ("never more than eval_push_limit+1 steps, never for a program that needs
           \* fewer than eval_push_limit steps"): stopping after limit steps instead of limit+1 is within the property
           m2 == RunMachine(c2, 0, cfg.push_limit - 1, cfg.growth_cap)
           okWith(mm, needx) == mm.out # "undetermined" /\ e.ret = mm.out /\ e.post = mm.fin /\ (needx /\ HasF(e.act, "xout") => e.ret = e.act.xout)
           sleeps == IF HasF(e, "sleeps") THEN e.sleeps ELSE 0
       IN \* time: only one-sided, causally sound inequalities (never a wall-clock equality)
          IF e.ret = "TimeLimitExceeded"
          \* (the recorded milliseconds are truncated, so "more than the limit elapsed" shows as >=)
          THEN (IF \E k \in 1..Len(c2) : e.post = c2[k].st /\ e.elapsed_ms >= c2[k].st.cfg.time_limit
                THEN Blank("ok", "run:time")
                ELSE Verdict("mismatch", "run", "C02", <<"outcome">>,
                             "TimeLimitExceeded although only " \o ToString(e.elapsed_ms) \o " ms elapsed, or the state left behind is not a state of the single-step chain"))
          ELSE IF (sleeps - 1) * SleepMs > cfg.time_limit
          THEN Verdict("mismatch", "run", "C02", <<"outcome">>,
                       "the time limit had passed before the last of " \o ToString(sleeps) \o " sleeps but run() went on")
          ELSE IF m.out = "undetermined" THEN Blank("ok", "run:undetermined")
          \* ... and a run whose budget is used up exactly when EXEC has become empty may report either outcome
          ELSE IF okWith(m, TRUE) \/ (cfg.push_limit > MinInt /\ okWith(m2, FALSE))
                  \/ (m.out = "StepLimitExceeded" /\ m.fin.exec = <<>> /\ e.ret = "NoErrors" /\ e.post = m.fin) THEN Blank("ok", "run")
          ELSE Verdict("mismatch", "run", "C02",
                       (IF e.ret # m.out THEN <<"outcome">> ELSE <<>>) \o SetAsSeq({f \in AllFields : e.post[f] # m.fin[f]}),
                       "run() returned " \o e.ret \o ", the loop machine fed with the recorded steps gives " \o m.out
                        \o " after " \o ToString(m.steps) \o " steps")

\* white space: ASCII plus the further Unicode White_Space characters (from ws.json; TLA+ source is ASCII)
WS == AsciiWS \cup Range(JsonDeserialize("ws.json"))

\* the parser: never crashes, touches only EXEC, and for input without a stray ")" builds exactly the
\* tree the specification's parser builds (float values exact where the text denotes a small dyadic)
JudgeParse(e, pre) ==
  IF Crashed(e) THEN Verdict("crash", "parse", "C03", <<>>, e.post.msg)
  ELSE LET others == {f \in AllFields \ {"exec"} : e.post[f] # pre[f]}
           r == Parse(e.act.text, pre.exec, KnownInstr, WS)
       IN IF others # {} THEN Verdict("mismatch", "parse", "C03", SetAsSeq(others), "the parser changed a stack other than EXEC")
          ELSE IF r.balanced /\ r.depth = 0 /\ ~SeqMatch(r.exec, e.post.exec)
          THEN Verdict("mismatch", "parse", "C03", <<"exec">>, "EXEC differs from the token tree")
          \* lists still open at the end of the text are closed there; C03 speaks of balanced programs only: extended coverage
          ELSE IF r.balanced /\ r.depth > 0 /\ ~SeqMatch(r.exec, e.post.exec)
          THEN Verdict("mismatch", "parse", "EXT", <<"exec">>, "EXEC differs from the token tree with the open lists closed at the end of the text")
          ELSE Blank("ok", "parse")

\* same structure and atoms, float values ignored
RECURSIVE SkeletonEq(_, _)
SkeletonEq(a, b) ==
  IF a.k # b.k THEN FALSE
  ELSE IF a.k = "list" THEN Len(a.v) = Len(b.v) /\ \A i \in 1..Len(a.v) : SkeletonEq(a.v[i], b.v[i])
  ELSE IF a.k \in {"float"} THEN TRUE
  ELSE a = b
\* is the item built only from what the parser can produce (lists, ints, bools, floats, names that
\* classify as names, registered instructions)?
RECURSIVE Producible(_)
Producible(t) ==
  CASE t.k = "list" -> \A i \in 1..Len(t.v) : Producible(t.v[i])
    [] t.k \in {"int", "bool", "float"} -> TRUE
    [] t.k = "ins" -> t.v \in KnownInstr
    [] t.k = "id" -> ~HasSpace(t.v, 1) /\ Len(t.v) > 0 /\ Classify(t.v, KnownInstr).item = IId(t.v) /\ Classify(t.v, KnownInstr).kind = "item"
    [] OTHER -> FALSE
\* the same shape, names unrestricted: for trees that the implementation's own parser has just produced from a
\* source text (act field "src") every name is parser-producible by construction
RECURSIVE ProducibleShape(_)
ProducibleShape(t) ==
  CASE t.k = "list" -> \A i \in 1..Len(t.v) : ProducibleShape(t.v[i])
    [] t.k \in {"int", "bool", "float"} -> TRUE
    [] t.k = "ins" -> t.v \in KnownInstr
    [] t.k = "id" -> Len(t.v) > 0
    [] OTHER -> FALSE
\* print -> parse -> print (C11)
JudgeRoundtrip(e, pre) ==
  IF Crashed(e) THEN Verdict("crash", "roundtrip", "C11", <<>>, e.post.msg)
  \* a tree nested deeper than an event can carry (built by the harness; t2 holds the number of re-parsed items only)
  ELSE IF "deep" \in DOMAIN e.act
  THEN LET x == e.ret  want == PrintItem(DeepItem(e.act.deep, 7)) IN
       IF x.p1 = want /\ x.p2 = want /\ x.t2 = <<IInt(1)>> /\ x.untouched THEN Blank("ok", "roundtrip")
       ELSE Verdict("mismatch", "roundtrip", "C11", <<"p1">>, "a deeply nested tree is not printed in full or does not come back from its printed form")
  ELSE IF pre.exec = <<>> \/ ~(Producible(pre.exec[1]) \/ ("src" \in DOMAIN e.act /\ ProducibleShape(pre.exec[1]))) THEN Blank("ok", "roundtrip:skipped")
  ELSE LET t == pre.exec[1]  x == e.ret IN
       IF ~(Len(x.t2) = 1 /\ SkeletonEq(t, x.t2[1]) /\ x.untouched)
       THEN Verdict("mismatch", "roundtrip", "C11", <<"t2">>, "parse(print(t)) is not structurally equal to t")
       ELSE IF x.p2 # x.p1 THEN Verdict("mismatch", "roundtrip", "C11", <<"p2">>, "print(parse(print(t))) differs from print(t)")
       ELSE IF ~Fuzzy(t) /\ (x.p1 # PrintItem(t) \/ (~HasFloat(t) /\ x.t2[1] # t))
       THEN Verdict("mismatch", "roundtrip", "C11", <<"p1">>, "printed form or re-parsed tree differs from the specification")
       ELSE Blank("ok", "roundtrip")
\* textual renderings of the stacks: top first, blank separated
JudgePrint(e, pre) ==
  IF Crashed(e) THEN Verdict("crash", "print", "C11", <<>>, e.post.msg)
  ELSE LET bad == (IF \A i \in 1..Len(pre.exec) : ~Fuzzy(pre.exec[i]) THEN (IF e.ret.exec # PrintItems(pre.exec) THEN {"exec"} ELSE {}) ELSE {})
                  \cup (IF \A i \in 1..Len(pre.code) : ~Fuzzy(pre.code[i]) THEN (IF e.ret.code # PrintItems(pre.code) THEN {"code"} ELSE {}) ELSE {})
                  \cup (IF e.ret.int # JoinStr([i \in 1..Len(pre.int) |-> ToString(pre.int[i])], " ") THEN {"int"} ELSE {})
                  \cup (IF e.ret.bool # JoinStr([i \in 1..Len(pre.bool) |-> BoolStr(pre.bool[i])], " ") THEN {"bool"} ELSE {})
       IN IF bad = {} /\ e.post = pre THEN Blank("ok", "print")
          ELSE Verdict("mismatch", "print", "C11", SetAsSeq(bad), "stack rendering differs (top first, blank separated)")

\* C14: the command-line front end prints EXEC / CODE / INT before every step.  The chain holds the library's
\* states (validated step by step against Step): ch[1] the state the text was parsed into, ch[2] after the
\* parse, ch[3] after copy_to_code, ch[3 + j] after j steps.  Block j must render ch[2 + j].
BlockOK(b, st) ==
  /\ ((\A i \in 1..Len(st.exec) : ~Fuzzy(st.exec[i])) => b.exec = StackLine(Items(st.exec), WS))
  /\ ((\A i \in 1..Len(st.code) : ~Fuzzy(st.code[i])) => b.code = StackLine(Items(st.code), WS))
  /\ b.int = JoinStr([i \in 1..Len(st.int) |-> ToString(st.int[i])], " ")
JudgeCliLines(e, ch) ==
  LET bl    == e.ret.blocks
      steps == Len(ch) - 3                      \* library steps recorded
      n     == IF Len(bl) < steps THEN Len(bl) ELSE steps
      libdone == steps >= 1 /\ ch[Len(ch)].done
      bad   == {j \in 1..n : ~BlockOK(bl[j], ch[2 + j].st)}
  IN IF Len(ch) < 3 THEN Blank("ok", "cli")
     \* how a stack is rendered is not part of C14 (the comparison with the library's own rendering is made by the
     \* differential stage): extended coverage
     ELSE IF bad # {} THEN Verdict("mismatch", "cli", "EXT", <<>>, "block " \o ToString(CHOOSE j \in bad : \A k \in bad : j <= k) \o
                                   " printed by the front end is not the specified rendering of the library's state before that step")
     ELSE IF libdone /\ ~e.ret.capped /\ ~(e.ret.done /\ e.ret.code = 0 /\ Len(bl) = steps)
     THEN Verdict("mismatch", "cli", "C14", <<>>, "the library finished after " \o ToString(steps) \o " steps; the front end printed " \o
                  ToString(Len(bl)) \o " blocks, exit code " \o ToString(e.ret.code))
     ELSE IF ~libdone /\ e.ret.done /\ Len(bl) < steps
     THEN Verdict("mismatch", "cli", "C14", <<>>, "the front end finished although the library had not")
     ELSE Blank("ok", "cli")

\* extended coverage (no listed property owns it): Display of the whole state
JudgeStateText(e, pre) ==
  IF HasF(e.act, "fresh") /\ [pre EXCEPT !.nid = 1] # EmptyState
  THEN Verdict("mismatch", "fresh_state", "EXT", <<>>, "PushState::new() is not the specification's EmptyState (stacks empty, default configuration)")
  ELSE IF Crashed(e) THEN Verdict("crash", "state_text", "EXT", <<>>, e.post.msg)
  ELSE IF e.post # pre THEN Verdict("mismatch", "state_text", "EXT", <<>>, "rendering the state changed it")
  ELSE IF ~TextDecidable(pre) THEN Blank("ok", "state_text")
  ELSE IF StateTextOK(e.ret, pre, WS) THEN Blank("ok", "state_text")
  ELSE Verdict("mismatch", "state_text", "EXT", <<>>, "Display of the state differs from the specified text")

VARIABLES l, cur, chain, taint
vars == <<l, cur, chain, taint>>

\* C15: the supervised, unguarded replay of the cost model's cases
JudgeCost(e, pre) ==
  LET subj == Subject(pre, e.act)
      how  == IF Crashed(e) THEN e.post.crash ELSE "ok"
  IN IF e.predict = "unbounded"
     THEN [Blank("dev", subj) EXCEPT !.dev = "F-ALLOC-" \o subj, !.owner = "C15", !.msg = how]
     ELSE IF how \in {"abort", "timeout"}
     THEN Verdict("mismatch", subj, "C15", <<>>, "the cost model bounds this step by the state size, but the process ended with " \o how)
     ELSE IF how = "panic" THEN Verdict("crash", subj, Owner(subj), <<>>, e.post.msg)
     ELSE Blank("ok", subj)
JudgeGrow(e, pre) ==
  IF Crashed(e) THEN Verdict("crash", "grow", "C15", <<>>, e.post.msg)
  ELSE IF e.ret.max_points > pre.cfg.max_prog_points
  THEN [Blank("dev", "grow") EXCEPT !.dev = "F-MAXPOINTS", !.owner = "C15", !.msg = ToString(e.ret.max_points) \o " points after " \o ToString(e.ret.steps) \o " steps"]
  ELSE IF e.ret.max_name > 64 * (StateCells(pre) + 1000)
  THEN [Blank("dev", "grow") EXCEPT !.dev = "F-NAMECAT-GROWTH", !.owner = "C15", !.msg = ToString(e.ret.max_name) \o " characters after " \o ToString(e.ret.steps) \o " steps"]
  ELSE Blank("ok", "grow")

Judge(e, pre) ==
  CASE HasF(e, "envelope") -> Blank("envelope", e.envelope)
    [] HasF(e, "predict") -> JudgeCost(e, pre)
    [] e.act.a = "grow" -> JudgeGrow(e, pre)
    [] e.act.a = "step" -> JudgeStepT(e, pre)
    [] e.act.a = "copy_to_code" -> JudgeCopy(e, pre)
    \* registering an instruction touches no state (the name is one of HarnessInstr: known to the specification throughout,
    \* cases use it in program text only after this act)
    [] e.act.a = "add_instr" -> IF Crashed(e) THEN Verdict("crash", "add_instr", "C03", <<>>, e.post.msg)
                                ELSE IF e.post = pre THEN Blank("ok", "add_instr") ELSE Verdict("mismatch", "add_instr", "C03", <<>>, "registering an instruction changed the state")
    [] e.act.a = "parse" -> JudgeParse(e, pre)
    [] e.act.a = "parse_summary" ->
         IF Crashed(e) THEN Verdict("crash", "parse", "C03", <<>>, e.post.msg)
         ELSE IF e.ret.others_unchanged THEN Blank("ok", "parse")
         ELSE Verdict("mismatch", "parse", "C03", <<>>, "the parser changed a stack other than EXEC")
    [] e.act.a = "roundtrip" -> JudgeRoundtrip(e, pre)
    [] e.act.a = "print" -> JudgePrint(e, pre)
    [] e.act.a = "state_text" -> JudgeStateText(e, pre)
    [] e.act.a = "cli" -> JudgeCliLines(e, chain)
    [] e.act.a = "end" -> JudgeEnd(e, taint)
    [] e.act.a = "run_from_start" -> JudgeRun(e, chain, taint)
    [] OTHER -> Blank("unknown-act", e.act.a)

Init == l = 1 /\ cur = EmptyState /\ chain = <<>> /\ taint = FALSE

Consume ==
  /\ l <= Len(Rec)
  /\ LET e   == Rec[l]
         first == HasF(e, "pre")
         pre == IF first THEN e.pre ELSE cur
         j   == Judge(e, pre)
         keeps == e.act.a \in {"end", "run_from_start", "roundtrip", "print", "state_text", "cli"}     \* events that do not advance the chain
     IN /\ ((j.v # "ok" \/ j.frame # <<>>) => PrintT("EV " \o ToJson([l |-> l, id |-> e.id, i |-> e.i, j |-> j])))
        /\ cur' = IF Crashed(e) \/ e.act.a = "grow" THEN EmptyState ELSE IF keeps THEN pre ELSE e.post
        /\ chain' = IF Crashed(e) \/ e.act.a = "grow" THEN <<>>
                    ELSE IF keeps THEN chain
                    ELSE (IF first THEN <<[st |-> e.pre, done |-> FALSE]>> ELSE chain)
                         \* (done = this step found the EXEC stack empty: a fact about the recorded state)
                         \o <<[st |-> e.post, done |-> e.act.a = "step" /\ pre.exec = <<>>]>>
        /\ taint' = IF first THEN j.v \notin {"ok"} ELSE (taint \/ j.v \notin {"ok"})
  /\ l' = l + 1

Finish == l = Len(Rec) + 1 /\ PrintT("DONE " \o ToString(Len(Rec))) /\ l' = l + 1 /\ UNCHANGED <<cur, chain, taint>>

Next == Consume \/ Finish
Spec == Init /\ [][Next]_vars
=============================================================================
