------------------------------- MODULE PushCost -----------------------------
(***************************************************************************)
(* Cost model of one interpreter step (property C15): Cells(n, s) is the   *)
(* number of container cells the step creates / loop iterations it runs    *)
(* beyond a constant multiple of what it reads.  The property demands      *)
(* Cells <= K * (StateCells + configured limits); PointsBound demands that *)
(* no item on CODE / EXEC exceeds max_points_in_program.                   *)
(***************************************************************************)
EXTENDS PushFootprint

RECURSIVE SumLens(_)
SumLens(ss) == IF ss = <<>> THEN 0 ELSE Len(Head(ss)) + SumLens(Tail(ss))
ItemsPoints(items) == SumSeq([i \in 1..Len(items) |-> Size(items[i])])
StateCells(s) == ItemsPoints(s.exec) + ItemsPoints(s.code) + Len(s.int) + Len(s.float) + Len(s.bool)
                 + SumLens(s.name) + SumLens(s.bvec) + SumLens(s.ivec) + SumLens(s.fvec) + Len(s.index)
                 + Len(s.graph) + Len(s.input) + Len(s.output)
AbsSat(x) == IF x = MinInt THEN MaxInt ELSE Abs(x)
CostBound(s) == LET b == StateCells(s) + 1000 IN
                IF b > 10000000 THEN MaxInt ELSE 64 * b + (IF AbsSat(s.cfg.max_rand_points) > 1000000 THEN 1000000 ELSE AbsSat(s.cfg.max_rand_points))

TopInt(s, i) == IF Len(s.int) >= i THEN Max2(s.int[i], 0) ELSE 0
\* cells created / iterations performed by instruction n in state s beyond the linear part
Cells(n, s) ==
  CASE n \in {"BOOLVECTOR.ONES", "BOOLVECTOR.ZEROS", "INTVECTOR.ONES", "INTVECTOR.ZEROS", "FLOATVECTOR.ONES", "FLOATVECTOR.ZEROS"} -> TopInt(s, 1)
    [] n = "BOOLVECTOR.RAND"  -> IF Has(s, "float", 1) THEN TopInt(s, 1) ELSE 0
    [] n = "FLOATVECTOR.RAND" -> IF Has(s, "float", 2) THEN TopInt(s, 1) ELSE 0
    [] n = "INTVECTOR.RAND"   -> IF Has(s, "int", 3) /\ s.int[2] > s.int[3] THEN TopInt(s, 1) ELSE 0
    [] n = "FLOATVECTOR.SINE" -> IF Has(s, "float", 3) THEN TopInt(s, 1) ELSE 0
    [] n = "LIST.NEIGHBOR*IDS" -> IF Has(s, "int", 3) /\ Has(s, "float", 1) /\ s.int[3] >= 1 THEN TopInt(s, 1) ELSE 0
    [] n \in {"LIST.NEIGHBOR*BVALS", "LIST.NEIGHBOR*IVALS", "LIST.NEIGHBOR*FVALS"} ->
         IF Has(s, "int", 4) /\ Has(s, "float", 1) /\ s.int[4] >= 1 THEN TopInt(s, 2) ELSE 0
    [] n = "CODE.RAND" -> IF Has(s, "int", 1) THEN Min2(AbsSat(s.int[1]), AbsSat(s.cfg.max_rand_points)) ELSE 0
    [] OTHER -> 0
Unbounded(n, s) == Cells(n, s) > CostBound(s)
\* instructions whose cost is known to follow an operand (known findings F-ALLOC-*)
ListedUnbounded == {"BOOLVECTOR.ONES", "BOOLVECTOR.ZEROS", "INTVECTOR.ONES", "INTVECTOR.ZEROS", "FLOATVECTOR.ONES",
                    "FLOATVECTOR.ZEROS", "BOOLVECTOR.RAND", "INTVECTOR.RAND", "FLOATVECTOR.RAND", "FLOATVECTOR.SINE",
                    "LIST.NEIGHBOR*IDS", "LIST.NEIGHBOR*BVALS", "LIST.NEIGHBOR*IVALS", "LIST.NEIGHBOR*FVALS"}
PointsBound(s) == /\ \A i \in 1..Len(s.exec) : Size(s.exec[i]) <= s.cfg.max_prog_points
                  /\ \A j \in 1..Len(s.code) : Size(s.code[j]) <= s.cfg.max_prog_points
=============================================================================
