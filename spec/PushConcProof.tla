--------------------------- MODULE PushConcProof ---------------------------
(***************************************************************************)
(* TLAPS proof, for ANY number of threads T and ANY number K of nodes per  *)
(* thread, that the atomic protocol of PushConc never hands out a node id  *)
(* twice (the unbounded counterpart of the invariant UniqueIds that TLC    *)
(* checks for T = 3, K <= 3).                                              *)
(***************************************************************************)
EXTENDS PushConc, TLAPS, SequenceTheorems

ASSUME Params == T \in Nat /\ K \in Nat /\ Atomic = TRUE

Distinct == UniqueIds
TypeOK == /\ counter \in Nat
          /\ ids \in [Threads -> Seq(Nat)]
Below == \A t \in Threads : \A i \in 1..Len(ids[t]) : ids[t][i] < counter
Inv == TypeOK /\ Below /\ Distinct

LEMMA InitInv == Init => Inv
  BY Params DEF Init, Inv, TypeOK, Below, Distinct, UniqueIds, Threads

LEMMA NextInv == Inv /\ [Next]_vars => Inv'
<1> SUFFICES ASSUME Inv, [Next]_vars PROVE Inv'
  OBVIOUS
<1>1. CASE UNCHANGED vars
  BY <1>1 DEF Inv, TypeOK, Below, Distinct, UniqueIds, vars, Threads
<1>2. ASSUME NEW t \in Threads, NodeNewAtomic(t) PROVE Inv'
  <2>1. /\ ids' = [ids EXCEPT ![t] = Append(ids[t], counter)]
        /\ counter' = counter + 1
    BY <1>2 DEF NodeNewAtomic
  <2>2. ids[t] \in Seq(Nat) /\ counter \in Nat
    BY DEF Inv, TypeOK
  <2>3. Append(ids[t], counter) \in Seq(Nat) /\ Len(Append(ids[t], counter)) = Len(ids[t]) + 1
    BY <2>2, AppendProperties
  <2>4. \A i \in 1..Len(ids[t]) : Append(ids[t], counter)[i] = ids[t][i]
    BY <2>2, AppendProperties
  <2>5. Append(ids[t], counter)[Len(ids[t]) + 1] = counter
    BY <2>2, AppendProperties
  <2>6. TypeOK'
    BY <2>1, <2>2, <2>3 DEF Inv, TypeOK
  <2>7. \A u \in Threads : u # t => ids'[u] = ids[u]
    BY <2>1 DEF Inv, TypeOK
  <2>8. ids'[t] = Append(ids[t], counter)
    BY <2>1 DEF Inv, TypeOK
  <2>9. Below'
    <3> SUFFICES ASSUME NEW u \in Threads, NEW i \in 1..Len(ids'[u]) PROVE ids'[u][i] < counter'
      BY DEF Below
    <3>1. CASE u # t
      BY <3>1, <2>7, <2>1, <2>2 DEF Inv, Below, TypeOK
    <3>2. CASE u = t
      <4>1. CASE i <= Len(ids[t])
        BY <4>1, <3>2, <2>8, <2>4, <2>3, <2>1, <2>2 DEF Inv, Below, TypeOK
      <4>2. CASE i = Len(ids[t]) + 1
        BY <4>2, <3>2, <2>8, <2>5, <2>1, <2>2
      <4> QED BY <4>1, <4>2, <3>2, <2>8, <2>3, <2>2
    <3> QED BY <3>1, <3>2
  <2>10. Distinct'
    <3> SUFFICES ASSUME NEW u \in Threads, NEW v \in Threads, NEW i \in 1..Len(ids'[u]), NEW j \in 1..Len(ids'[v]),
                        u # v \/ i # j
                 PROVE ids'[u][i] # ids'[v][j]
      BY DEF Distinct, UniqueIds
    <3>a. \A w \in Threads : \A k \in 1..Len(ids'[w]) :
             \/ (k \in 1..Len(ids[w]) /\ ids'[w][k] = ids[w][k] /\ ids[w][k] < counter)
             \/ (w = t /\ k = Len(ids[t]) + 1 /\ ids'[w][k] = counter)
      <4> TAKE w \in Threads
      <4> TAKE k \in 1..Len(ids'[w])
      <4>1. CASE w # t
        BY <4>1, <2>7 DEF Inv, Below
      <4>2. CASE w = t
        <5>1. CASE k <= Len(ids[t])
          BY <5>1, <4>2, <2>8, <2>4, <2>3, <2>2 DEF Inv, Below
        <5>2. CASE k = Len(ids[t]) + 1
          BY <5>2, <4>2, <2>8, <2>5
        <5> QED BY <5>1, <5>2, <4>2, <2>8, <2>3, <2>2
      <4> QED BY <4>1, <4>2
    <3>b. ids[u] \in Seq(Nat) /\ ids[v] \in Seq(Nat)
      BY DEF Inv, TypeOK
    <3> QED
      BY <3>a, <3>b, <2>2 DEF Inv, Distinct, UniqueIds, Below, TypeOK
  <2> QED BY <2>6, <2>9, <2>10 DEF Inv
<1>3. ASSUME NEW t \in Threads, Load(t) PROVE Inv'
  BY <1>3, Params DEF Load
<1>4. ASSUME NEW t \in Threads, Store(t) PROVE Inv'
  BY <1>4, Params DEF Store
<1>5. ASSUME NEW t \in Threads, LocalStep(t) PROVE Inv'
  BY <1>5 DEF LocalStep, Inv, TypeOK, Below, Distinct, UniqueIds, Threads
<1> QED BY <1>1, <1>2, <1>3, <1>4, <1>5 DEF Next

THEOREM Safety == Spec => []Distinct
<1>1. Inv => Distinct
  BY DEF Inv
<1> QED BY InitInv, NextInv, <1>1, PTL DEF Spec
=============================================================================
