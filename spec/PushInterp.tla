----------------------------- MODULE PushInterp -----------------------------
(***************************************************************************)
(* The interpreter: instruction dispatch (Apply), one interpreter step     *)
(* (Step, one disjunct per arm of the real step function) and the bounded  *)
(* run loop as a small control-state machine.                              *)
(***************************************************************************)
EXTENDS PushMatch

\* Apply(n, s): result of executing registered instruction n in state s (s.exec no longer holds n)
Apply(n, s) ==
  IF n \in StackOpNames THEN ApplyStackOp(StackOpOf[n][1], StackOpOf[n][2], s)
  ELSE IF n \in ScalarInstr THEN ApplyScalar(n, s)
  ELSE IF n \in CodeFamily THEN ApplyCodeFamily(n, s)
  ELSE IF n \in VectorInstr THEN ApplyVector(n, s)
  ELSE IF n \in ListInstr THEN ApplyList(n, s)
  ELSE IF n \in IOInstr THEN ApplyIO(n, s)
  ELSE IF n \in GraphInstr THEN ApplyGraph(n, s)
  ELSE IF n \in RandInstr THEN ApplyRand(n, s)
  \* a user instruction that changes the configuration it runs under (the limits in force are those of the current state)
  ELSE IF n = "VERIF.TIMEUP" THEN Fired([s EXCEPT !.cfg.time_limit = 0])
  ELSE Fired(s)                       \* NOOP and the harness instructions

\* which state fields a literal item is pushed to
LiteralField(k) == CASE k = "bool" -> "bool" [] k = "int" -> "int" [] k = "float" -> "float"
                     [] k = "bvec" -> "bvec" [] k = "ivec" -> "ivec" [] k = "fvec" -> "fvec"
                     [] k = "index" -> "index" [] k = "graph" -> "graph"

StepKind(s) ==
  IF s.exec = <<>> THEN "empty"
  ELSE LET t == s.exec[1] IN
       IF t.k = "list" THEN "list"
       ELSE IF t.k = "ins" THEN (IF t.v \in ExtraInstr THEN "extra" ELSE IF t.v \in KnownInstr THEN "instr" ELSE "unknown")
       ELSE IF t.k = "id" THEN (IF s.quote THEN "quoted" ELSE IF t.v \in DOMAIN s.bind THEN "bound" ELSE "free")
       ELSE "literal"

\* one interpreter step; `done` is the value the real step function returns
Step(s) ==
  LET kind == StepKind(s) IN
  IF kind = "empty" THEN [res |-> Fired(s), done |-> TRUE, kind |-> kind]
  ELSE LET t == s.exec[1]
           r == PopN(s, "exec", 1)
       IN [done |-> FALSE, kind |-> kind, res |->
           CASE kind = "list"    -> Fired(SetF(r, "exec", t.v \o r.exec))
             [] kind = "instr"   -> Apply(t.v, r)
             [] kind = "unknown" -> Fired(r)
             [] kind = "extra"   -> Fired(r)        \* unspecified (placeholder: such a step is never judged)
             [] kind = "quoted"  -> Fired([PushOn(r, "name", t.v) EXCEPT !.quote = FALSE])
             [] kind = "bound"   -> Fired(PushOn(r, "exec", s.bind[t.v]))
             [] kind = "free"    -> Fired(PushOn(r, "name", t.v))
             [] kind = "literal" ->
                  IF t.k = "graph" /\ Len(r.graph) >= r.cfg.graph_cap THEN Fired(r)
                  ELSE Fired(PushOn(r, LiteralField(t.k), t.v))]

---------------------------------------------------------------------------
(* The bounded run loop of the interpreter as a control-state machine over (st, rl), in the order
   of checks of the implementation: step-limit test, (time test), size sample, step, growth test,
   counter increment.  rl = [pc, steps, outcome]. *)
CopyToCode(s) == [s EXCEPT !.code = s.exec \o s.code]
RunInit       == [pc |-> "start", steps |-> 0, outcome |-> "none"]
RunStart(s, rl) == [st |-> CopyToCode(s), rl |-> [rl EXCEPT !.pc = "head"]]
RunIter(s, rl) ==
  IF rl.steps > s.cfg.push_limit
  THEN [st |-> s, rl |-> [rl EXCEPT !.pc = "done", !.outcome = "StepLimitExceeded"]]
  ELSE LET sr == Step(s) IN
       IF sr.done THEN [st |-> s, rl |-> [rl EXCEPT !.pc = "done", !.outcome = "NoErrors"]]
       \* (a negative cap encodes one beyond 32 bits: no step can exceed it)
       ELSE IF s.cfg.growth_cap >= 0 /\ StateSize(sr.res.post) > StateSize(s) + s.cfg.growth_cap
       THEN [st |-> sr.res.post, rl |-> [rl EXCEPT !.pc = "done", !.outcome = "GrowthCapExceeded"]]
       ELSE [st |-> sr.res.post, rl |-> [rl EXCEPT !.steps = @ + 1]]
\* the time limit is abstract: it may only fire at the loop head, between two steps
RunTimeLimit(s, rl) == [st |-> s, rl |-> [rl EXCEPT !.pc = "done", !.outcome = "TimeLimitExceeded"]]
=============================================================================
