------------------------------ MODULE PushRand ------------------------------
(***************************************************************************)
(* The *.RAND instructions (properties C12 / C13): nondeterministic, so    *)
(* the result carries holes whose classes are the documented contracts.    *)
(***************************************************************************)
EXTENDS PushGraphText

RandInstr == {"BOOLEAN.RAND", "INTEGER.RAND", "FLOAT.RAND", "NAME.RAND", "NAME.RANDBOUNDNAME",
              "CODE.RAND", "BOOLVECTOR.RAND", "INTVECTOR.RAND", "FLOATVECTOR.RAND"}

\* |n| capped by |max_points|; |MinInt| is not representable and counts as "larger than any cap"
AbsMin(n, m) == LET am == IF m = MinInt THEN MaxInt ELSE Abs(m)
                    an == IF n = MinInt THEN MaxInt ELSE Abs(n)
                IN Min2(an, am)

\* admitted alternatives to what Apply says (equally within the properties; found with property-preserving changes):
\* CODE.RAND with a limit of exactly 1 may push one leaf
AltRand(n, s) ==
  IF n = "CODE.RAND" /\ Has(s, "int", 1) /\ AbsMin(s.int[1], s.cfg.max_rand_points) = 1
  THEN <<FiredH(PushOn(PopN(s, "int", 1), "code", EmptyList), <<HoleAB(<<"code", 1>>, "randcode", 1, SetAsSeq(DOMAIN s.bind))>>)>>
  \* FLOAT.RAND between bounds of which one is infinite: no uniform value exists; nothing is as good as a value inside
  ELSE IF n = "FLOAT.RAND" /\ FLt(s.cfg.min_f, s.cfg.max_f) /\ (~FIsFinite(s.cfg.min_f) \/ ~FIsFinite(s.cfg.max_f))
  THEN <<Unfired(s)>>
  \* NAME.RANDBOUNDNAME while nothing is bound: the property speaks of the case that a bound name exists; a fresh name (the
  \* implementation) or nothing
  ELSE IF n = "NAME.RANDBOUNDNAME" /\ DOMAIN s.bind = {} THEN <<Unfired(s)>>
  \* INDEX.DESTINATION as its doc comment has it ("pushes the destination field of the top INDEX to the INTEGER stack");
  \* the implementation pushes a fresh index with that destination (ApplyCodeFamily): the documentation contradicts the code
  ELSE IF n = "INDEX.DESTINATION" /\ Has(s, "index", 1) THEN <<Fired(PushOn(s, "int", s.index[1].dst))>>
  \* LIST.GET of an empty record: "LIST.GET followed by execution" moves nothing either way - the empty list on EXEC or not
  ELSE IF n = "LIST.GET" /\ Has(s, "int", 1) /\ s.code # <<>> /\ s.code[Clamp(s.int[1], Len(s.code)) + 1] = EmptyList
  THEN <<Unfired(PopN(s, "int", 1))>>
  \* INTVECTOR.LOOP taking the LAST element: what is queued under the body unfolds to nothing either way - the re-armed loop
  \* over the empty rest (the implementation) or an empty list; C06 speaks of the body's runs and of what is left at the end
  ELSE IF n = "INTVECTOR.LOOP" /\ Has(s, "ivec", 1) /\ Has(s, "exec", 1) /\ Len(s.ivec[1]) = 1
  THEN LET s2 == PopN(PopN(s, "ivec", 1), "exec", 1) IN
       <<Fired(PushOn(SetF(s2, "exec", <<s.exec[1], EmptyList>> \o s2.exec), "int", s.ivec[1][1])),
         Fired(PushOn(SetF(s2, "exec", <<s.exec[1]>> \o s2.exec), "int", s.ivec[1][1]))>>      \* (or nothing at all)
  ELSE <<>>

ApplyRand(n, s) ==
  CASE n = "BOOLEAN.RAND" -> FiredH(PushOn(s, "bool", FALSE), <<Hole(<<"bool", 1>>, "bool")>>)
    \* a value in [min, max) when min < max, otherwise nothing
    [] n = "INTEGER.RAND" -> IF s.cfg.min_i < s.cfg.max_i
                             THEN FiredH(PushOn(s, "int", s.cfg.min_i),
                                         <<HoleAB(<<"int", 1>>, "irange", s.cfg.min_i, s.cfg.max_i)>>)
                             ELSE Unfired(s)
    [] n = "FLOAT.RAND"   -> IF FLt(s.cfg.min_f, s.cfg.max_f)
                             THEN FiredH(PushOn(s, "float", s.cfg.min_f),
                                         <<HoleAB(<<"float", 1>>, "frange", s.cfg.min_f, s.cfg.max_f)>>)
                             ELSE Unfired(s)
    [] n = "NAME.RAND"    -> FiredH(PushOn(s, "name", ""), <<Hole(<<"name", 1>>, "name")>>)
    \* a currently bound name whenever one exists
    [] n = "NAME.RANDBOUNDNAME" ->
         IF DOMAIN s.bind = {} THEN FiredH(PushOn(s, "name", ""), <<Hole(<<"name", 1>>, "name")>>)
         ELSE FiredH(PushOn(s, "name", ""), <<HoleAB(<<"name", 1>>, "member", SetAsSeq(DOMAIN s.bind), 0)>>)
    \* at most limit points (C12: "never more than |n| nor than max-points"; the implementation stays below the
    \* limit) for a limit >= 2, nothing for a limit of 0; for a limit of 1 nothing (the implementation) or a single
    \* leaf (AltRand) are both within the property
    [] n = "CODE.RAND" -> IF ~Has(s, "int", 1) THEN Unfired(s)
                          ELSE LET s1 == PopN(s, "int", 1)
                                   limit == AbsMin(s.int[1], s.cfg.max_rand_points)
                               IN IF limit < 2 THEN Unfired(s1)
                                  ELSE FiredH(PushOn(s1, "code", EmptyList),
                                              <<HoleAB(<<"code", 1>>, "randcode", limit, SetAsSeq(DOMAIN s.bind))>>)
    \* size from INTEGER, then sparsity from FLOAT; invalid parameters: operands consumed only
    [] n = "BOOLVECTOR.RAND" ->
         IF ~Has(s, "int", 1) THEN Unfired(s)
         ELSE LET s1 == PopN(s, "int", 1) IN
              IF ~Has(s, "float", 1) THEN Unfired(s1)
              ELSE LET s2 == PopN(s1, "float", 1)
                       sz == s.int[1]
                       sp == s.float[1]
                   IN IF sz < 0 \/ FIsNaN(sp) \/ FLt(sp, FPosZero) \/ FGt(sp, FOne) THEN Unfired(s2)
                      ELSE FiredH(PushOn(s2, "bvec", <<>>), <<HoleAB(<<"bvec", 1>>, "bvecrand", sz, sp)>>)
    \* min, max, size (top) from INTEGER
    [] n = "INTVECTOR.RAND" ->
         IF ~Has(s, "int", 3) THEN Unfired(s)
         ELSE LET s1 == PopN(s, "int", 3)
                  sz == s.int[1]
                  mx == s.int[2]
                  mn == s.int[3]
              IN IF sz < 0 \/ mx <= mn THEN Unfired(s1)
                 ELSE FiredH(PushOn(s1, "ivec", <<>>), <<HoleAB(<<"ivec", 1>>, "ivecrand", sz, <<mn, mx>>)>>)
    \* size from INTEGER; standard deviation (second) and mean (top) from FLOAT
    [] n = "FLOATVECTOR.RAND" ->
         IF ~Has(s, "int", 1) THEN Unfired(s)
         ELSE LET s1 == PopN(s, "int", 1) IN
              IF ~Has(s, "float", 2) THEN Unfired(s1)
              ELSE LET s2 == PopN(s1, "float", 2)
                       sd == s.float[2]
                   IN IF s.int[1] < 0 \/ ~FIsFinite(sd) \/ FLt(sd, FPosZero) THEN Unfired(s2)
                      ELSE FiredH(PushOn(s2, "fvec", <<>>), <<HoleAB(<<"fvec", 1>>, "len", s.int[1], 0)>>)
=============================================================================
