------------------------------ MODULE PushList ------------------------------
(***************************************************************************)
(* Index topologies (property C20), LIST records (property C19) and the    *)
(* INPUT / OUTPUT queue instructions (property C17).                       *)
(***************************************************************************)
EXTENDS PushVector

---------------------------------------------------------------------------
(* Topology: neighbourhoods on the smallest enclosing hypercube, in integer arithmetic *)
RECURSIVE IPow(_, _)
IPow(b, e) == IF e = 0 THEN 1 ELSE b * IPow(b, e - 1)
\* does b^e reach n (without overflowing)?
RECURSIVE PowGE(_, _, _)
PowGE(b, e, n) == IF n <= 1 THEN TRUE ELSE IF e = 0 THEN FALSE
                  ELSE IF b >= n THEN TRUE
                  ELSE PowGE(b, e - 1, (n + b - 1) \div b)     \* b^e >= n  <=>  b^(e-1) >= ceil(n/b)
\* edge length of the smallest d-dimensional hypercube with at least n cells
RECURSIVE EdgeFrom(_, _, _)
EdgeFrom(e, d, n) == IF PowGE(e, d, n) THEN e ELSE EdgeFrom(e + 1, d, n)
Edge(n, d) == EdgeFrom(1, d, n)
\* coordinates of an index: digit i is (index div edge^i) mod edge; digits beyond the size are 0
RECURSIVE Coord(_, _, _)
Coord(index, edge, i) == IF i = 0 THEN index % edge
                         ELSE IF index < edge THEN 0 ELSE Coord(index \div edge, edge, i - 1)
Decompose(index, edge, d) == [i \in 1..d |-> IF edge = 1 THEN 0 ELSE Coord(index, edge, i - 1)]
Dist2(a, b) == SumSeq([i \in 1..Len(a) |-> (a[i] - b[i]) * (a[i] - b[i])])

\* floor(r * 2^s) for a finite non-negative float r, or -1 when it does not fit 30 bits
FloorScaled(r, s) ==
  IF FIsZero(r) THEN 0
  ELSE LET m == IF FExp(r) = 0 THEN FMan(r) ELSE P23 + FMan(r)
           e == (IF FExp(r) = 0 THEN -149 ELSE FExp(r) - 150) + s
       IN IF e >= 0 THEN (IF BitLen(m) + e > 30 THEN -1 ELSE m * 2^e)
          ELSE IF -e > 30 THEN 0 ELSE m \div 2^(-e)
\* is an integer squared distance D within the radius r (float bits, already clamped to >= 0)?
\* "in" / "out" / "open" (the spec does not decide distances within 2^-10 of the radius)
InBall(D, r) ==
  IF FIsNaN(r) THEN "out"                 \* no distance compares <= NaN
  ELSE IF r = FPosInf THEN "in"
  ELSE LET t0 == FloorScaled(r, 0) IN
       IF t0 = -1 \/ t0 >= 46340 THEN "in"
       ELSE IF D <= (t0 * t0) THEN "in"
       ELSE IF D >= (t0 + 1) * (t0 + 1) THEN "out"
       ELSE IF D >= 2047 \/ t0 >= 44 THEN "open"
       ELSE LET t == FloorScaled(r, 10) IN
            IF D * 1048576 <= t * t THEN "in"
            ELSE IF D * 1048576 >= (t + 1) * (t + 1) THEN "out"
            ELSE "open"

\* [none, lo, hi]: every admissible result is an ascending sequence between lo and hi
\* (with 65 or more dimensions and at least two cells the coordinate strides 2^i no longer fit 64 bits
\* and no neighbourhood is computed: admitted as implemented, the documentation is silent)
Neighbors(ntotal, ndim, index, r) ==
  IF ndim < 1 \/ ntotal < 1 \/ (ndim >= 65 /\ ntotal >= 2) THEN [none |-> TRUE, lo |-> <<>>, hi |-> <<>>]
  ELSE LET edge == Edge(ntotal, ndim)
           c0   == Decompose(index, edge, ndim)
           cls(i) == InBall(Dist2(c0, Decompose(i, edge, ndim)), r)
           all  == [i \in 1..ntotal |-> i - 1]
       IN [none |-> FALSE,
           lo |-> SelectSeq(all, LAMBDA i : cls(i) = "in"),
           hi |-> SelectSeq(all, LAMBDA i : cls(i) # "out")]

\* operand clamping of LIST.NEIGHBOR*: size >= 0, index into 0..size-1, dimensions into 0..size,
\* radius >= 0 (NaN counts as 0)
ClampRadius(r) == IF FIsNaN(r) \/ FNegBit(r) THEN FPosZero ELSE r
NeighborArgs(dim, idx, size, r) ==
  LET sz == Max2(size, 0) IN
  [size |-> sz, idx |-> Max2(Min2(sz - 1, idx), 0), dim |-> Max2(Min2(sz, dim), 0), r |-> ClampRadius(r)]

---------------------------------------------------------------------------
(* LIST records *)
FieldOfId(id) == CASE id = 1 -> "bool" [] id = 2 -> "bvec" [] id = 3 -> "code" [] id = 4 -> "exec"
                   [] id = 5 -> "float" [] id = 6 -> "fvec" [] id = 9 -> "int" [] id = 10 -> "ivec"
                   [] id = 11 -> "name" [] OTHER -> "none"
\* pops one item per stack id in vector order, skipping empty stacks and foreign ids;
\* returns [st, items] with items in load order
RECURSIVE LoadRec(_, _, _)
LoadRec(ids, st, acc) ==
  IF ids = <<>> THEN [st |-> st, items |-> acc]
  ELSE LET f == FieldOfId(Head(ids)) IN
       IF f = "none" \/ st[f] = <<>> THEN LoadRec(Tail(ids), st, acc)
       ELSE LoadRec(Tail(ids), PopN(st, f, 1), acc \o <<AsItem(f, st[f][1])>>)
\* the record: the item loaded last is its first element
RecordOf(items) == IList(Rev(items))

NthValue(item, kd, n, default) ==
  LET r == NthOfKind(item, kd, n) IN IF r.found THEN r.item.v ELSE default

\* common part of NEIGHBOR*: k integers popped (all or nothing), then the radius
NeighborCommon(s, k, Build(_, _, _)) ==
  IF ~Has(s, "int", k) THEN Unfired(s)
  ELSE LET s1 == PopN(s, "int", k) IN
       IF ~Has(s, "float", 1) THEN Unfired(s1)
       ELSE LET s2 == PopN(s1, "float", 1)
                a  == NeighborArgs(s.int[k], s.int[k - 1], s.int[k - 2], s.float[1])
                nb == Neighbors(a.size, a.dim, a.idx, a.r)
            IN IF nb.none THEN Unfired(s2) ELSE Build(s2, nb, IF k = 4 THEN s.int[1] ELSE 0)

ListInstr == {"LIST.ADD", "LIST.REMOVE", "LIST.GET", "LIST.SET", "LIST.BVAL", "LIST.IVAL", "LIST.FVAL",
              "LIST.NEIGHBOR*IDS", "LIST.NEIGHBOR*BVALS", "LIST.NEIGHBOR*IVALS", "LIST.NEIGHBOR*FVALS"}

ValInstr(s, f, kd, default) ==
  IF ~Has(s, "int", 2) THEN Unfired(s)
  ELSE LET s1 == PopN(s, "int", 2) IN
       IF s.code = <<>> THEN Unfired(s1)
       ELSE Fired(PushOn(s1, f, NthValue(s.code[Clamp(s.int[2], Len(s.code)) + 1], kd, s.int[1], default)))

\* values of the records at the neighbour positions that exist on the CODE stack
NeighborVals(s2, nb, n, f, kd, default) ==
  LET vals(seq) == LET ok == SelectSeq(seq, LAMBDA i : i < Len(s2.code)) IN
                   [j \in 1..Len(ok) |-> NthValue(s2.code[ok[j] + 1], kd, n, default)]
  IN IF nb.lo = nb.hi THEN Fired(PushOn(s2, f, vals(nb.lo)))
     ELSE FiredH(PushOn(s2, f, vals(nb.lo)), <<Hole(<<f, 1>>, "item")>>)

ApplyList(n, s) ==
  CASE n = "LIST.ADD" -> IF ~Has(s, "ivec", 1) THEN Unfired(s)
                         ELSE LET r == LoadRec(s.ivec[1], PopN(s, "ivec", 1), <<>>) IN
                              Fired(PushOn(r.st, "code", RecordOf(r.items)))
    [] n = "LIST.REMOVE" -> IF ~Has(s, "int", 1) THEN Unfired(s)
                            ELSE LET s1 == PopN(s, "int", 1) IN
                                 IF s.code = <<>> THEN Unfired(s1)
                                 ELSE Fired(SetF(s1, "code", RemoveAt(s.code, Clamp(s.int[1], Len(s.code)) + 1)))
    \* a copy of the addressed record goes to EXEC (the record stays); non-lists are not copied
    [] n = "LIST.GET" -> IF ~Has(s, "int", 1) THEN Unfired(s)
                         ELSE LET s1 == PopN(s, "int", 1) IN
                              IF s.code = <<>> THEN Unfired(s1)
                              ELSE LET it == s.code[Clamp(s.int[1], Len(s.code)) + 1] IN
                                   IF it.k = "list" THEN Fired(PushOn(s1, "exec", it)) ELSE Unfired(s1)
    \* the address is computed before the items are loaded; the new record replaces that position
    \* (nothing is stored when the position no longer exists after loading)
    [] n = "LIST.SET" -> IF ~Has(s, "int", 1) THEN Unfired(s)
                         ELSE LET s1  == PopN(s, "int", 1)
                                  pos == Clamp(s.int[1], Len(s.code))
                              IN IF ~Has(s1, "ivec", 1) THEN Unfired(s1)
                                 \* no record to address: a failed guard (the implementation still loads the items and drops them)
                                 ELSE IF s.code = <<>> THEN Unfired(LoadRec(s1.ivec[1], PopN(s1, "ivec", 1), <<>>).st)
                                 ELSE LET r == LoadRec(s1.ivec[1], PopN(s1, "ivec", 1), <<>>) IN
                                      IF pos < Len(r.st.code)
                                      THEN Fired(SetF(r.st, "code", ReplaceAt(r.st.code, pos + 1, RecordOf(r.items))))
                                      ELSE Fired(r.st)
    [] n = "LIST.BVAL" -> ValInstr(s, "bool", "bool", FALSE)
    [] n = "LIST.IVAL" -> ValInstr(s, "int", "int", 0)
    [] n = "LIST.FVAL" -> ValInstr(s, "float", "float", FPosZero)
    [] n = "LIST.NEIGHBOR*IDS" ->
         NeighborCommon(s, 3, LAMBDA s2, nb, pos :
           IF nb.lo = nb.hi THEN Fired(PushOn(s2, "ivec", nb.lo))
           ELSE FiredH(PushOn(s2, "ivec", nb.lo), <<[p |-> <<"ivec", 1>>, c |-> "between", a |-> nb.lo, b |-> nb.hi]>>))
    [] n = "LIST.NEIGHBOR*BVALS" -> NeighborCommon(s, 4, LAMBDA s2, nb, pos : NeighborVals(s2, nb, pos, "bvec", "bool", FALSE))
    [] n = "LIST.NEIGHBOR*IVALS" -> NeighborCommon(s, 4, LAMBDA s2, nb, pos : NeighborVals(s2, nb, pos, "ivec", "int", 0))
    [] n = "LIST.NEIGHBOR*FVALS" -> NeighborCommon(s, 4, LAMBDA s2, nb, pos : NeighborVals(s2, nb, pos, "fvec", "float", FPosZero))

---------------------------------------------------------------------------
(* INPUT / OUTPUT: bounded FIFO queues of messages [h, b]; element 1 is the oldest *)
IOInstr == {"INPUT.AVAILABLE", "INPUT.GET", "INPUT.NEXT", "INPUT.READ", "INPUT.STACKDEPTH",
            "OUTPUT.FLUSH", "OUTPUT.STACKDEPTH", "OUTPUT.WRITE"}
ApplyIO(n, s) ==
  CASE n = "INPUT.AVAILABLE" -> Fired(PushOn(s, "bool", s.input # <<>>))
    \* index popped first; the clamped bit of the oldest message's body; nothing for an empty body
    [] n = "INPUT.GET" -> IF ~Has(s, "int", 1) THEN Unfired(s)
                          ELSE LET s1 == PopN(s, "int", 1) IN
                               IF s.input = <<>> \/ s.input[1].b = <<>> THEN Unfired(s1)
                               ELSE Fired(PushOn(s1, "bool", s.input[1].b[Clamp(s.int[1], Len(s.input[1].b)) + 1]))
    [] n = "INPUT.NEXT" -> IF s.input = <<>> THEN Unfired(s) ELSE Fired(SetF(s, "input", Tail(s.input)))
    \* the oldest message is copied (not consumed): body to BOOLVECTOR, header to INTVECTOR
    [] n = "INPUT.READ" -> IF s.input = <<>> THEN Unfired(s)
                           ELSE Fired(PushOn(PushOn(s, "bvec", s.input[1].b), "ivec", s.input[1].h))
    [] n = "INPUT.STACKDEPTH"  -> Fired(PushOn(s, "int", Len(s.input)))
    [] n = "OUTPUT.FLUSH"      -> Fired(SetF(s, "output", <<>>))
    [] n = "OUTPUT.STACKDEPTH" -> Fired(PushOn(s, "int", Len(s.output)))
    \* body popped first, then the header; the message is enqueued unless the queue is full
    [] n = "OUTPUT.WRITE" -> IF ~Has(s, "bvec", 1) THEN Unfired(s)
                             ELSE LET s1 == PopN(s, "bvec", 1) IN
                                  IF ~Has(s, "ivec", 1) THEN Unfired(s1)
                                  ELSE LET s2 == PopN(s1, "ivec", 1) IN
                                       \* a full queue refuses the message: a failed guard (what becomes of the operands is C10's clause)
                                       IF Len(s.output) >= s.cfg.out_cap THEN Unfired(s2)
                                       ELSE Fired(SetF(s2, "output", s.output \o <<[h |-> s.ivec[1], b |-> s.bvec[1]]>>))
=============================================================================
