------------------------------ MODULE PushMatch -----------------------------
(***************************************************************************)
(* Matching an observed concrete state against a specification result:     *)
(* equal everywhere except at the holes, where the value must be in the    *)
(* hole's class.                                                           *)
(***************************************************************************)
EXTENDS PushRand, Json, IOUtils

HarnessInstr == {"VERIF.PROBE", "VERIF.SLEEP", "VERIF.TIMEUP", "VERIF.NOOP*WITH*A*NAME*LONGER*THAN*ANY*BUILTIN*INSTRUCTION",
                 "VERIF.NÖÖP*MIT*UMLÄUTEN*ÜBER*DREIUNDZWANZIG*BYTES", "VERIF.ÄÖÜ*ÄÖÜ*ÄÖÜ*ÄÖÜ*ÄÖÜ*ÄÖÜ*ÄÖÜ*ÄÖÜ*ÄÖÜ*ÄÖÜ*ÄÖÜ*ÄÖÜ*NOOP", "VERIF.MyInstruction", "VERIFSQUARE", "verif.lower", "2VERIF", "424242", "4.25", "BOOL[1,0]", "INT[7", "integer.max", "Float.<", "name.cat", "intvector.sum", "VERIF.EARLY",
                 "VERIF.LATE*ADDITION*XXXXXXXXXXXXXXXXXXXXXXXXXXXXXXXXXXXXXXXXXXXXXXXXXXXXXXXXXXXXXXXXXXXXXXXXXXXXXXXXXXXXXXXXXXXXXXXXXXXXXXXXXXXXXXXXXXXXXXXXXXXXXXXXXX", "VERIF.LATE", "ПОЗДНО.ДОБАВЛЕННАЯ*ИНСТРУКЦИЯ"}
Registry == StackOpNames \cup ScalarInstr \cup CodeFamily \cup VectorInstr \cup ListInstr \cup IOInstr
            \cup GraphInstr \cup RandInstr \cup {"NOOP"}
\* instructions the build under test registers beyond those the specification gives a meaning to (supplied by the harness
\* from the build's own registry): they parse, print and are generated like every registered instruction; what a step of
\* them does is not specified
ExtraInstr == IF "PV_EXTRA_INSTR" \in DOMAIN IOEnv /\ IOEnv.PV_EXTRA_INSTR # "" THEN Range(JsonDeserialize(IOEnv.PV_EXTRA_INSTR)) ELSE {}
KnownInstr == Registry \cup HarnessInstr \cup ExtraInstr

---------------------------------------------------------------------------
(* matching a concrete state against a result *)
RECURSIVE CountIn(_, _)
CountIn(s, x) == IF s = <<>> THEN 0 ELSE (IF Head(s) = x THEN 1 ELSE 0) + CountIn(Tail(s), x)
IsPerm(a, b) == Len(a) = Len(b) /\ \A i \in 1..Len(a) : CountIn(a, a[i]) = CountIn(b, a[i])
SameSet(a, b) == Range(a) = Range(b)

ClassOK(h, v, placeholder) ==
  CASE h.c = "int"    -> TRUE
    [] h.c = "float"  -> TRUE
    [] h.c = "bool"   -> TRUE
    [] h.c = "name"   -> TRUE
    \* what the texts say is extended coverage (Trace.JudgeStep reports it under EXT), not part of matching
    [] h.c = "graphtext" -> TRUE
    [] h.c = "difftext"  -> TRUE
    [] h.c = "item"   -> TRUE
    [] h.c = "between" -> /\ Range(h.a) \subseteq Range(v) /\ Range(v) \subseteq Range(h.b)
                          /\ \A i \in 1..(Len(v) - 1) : v[i] < v[i + 1]
    [] h.c = "nan"    -> FIsNaN(v)
    [] h.c = "perm"   -> IsPerm(v, placeholder)
    [] h.c = "sameset" -> SameSet(v, placeholder)
    [] h.c = "irange" -> v >= h.a /\ v < h.b
    [] h.c = "frange" -> ~FIsNaN(v) /\ ~FLt(v, h.a) /\ FLt(v, h.b)
    [] h.c = "near"   -> \/ v = placeholder
                         \/ (~FIsNaN(v) /\ ~FIsNaN(placeholder) /\ FNegBit(v) = FNegBit(placeholder)
                             /\ FMag(v) - FMag(placeholder) <= h.a /\ FMag(placeholder) - FMag(v) <= h.a)
    [] h.c = "len"    -> Len(v) = h.a
    [] h.c = "oneof"  -> v = h.a \/ v = h.b
    [] h.c = "constvec" -> Len(v) = h.a /\ \A i \in 1..Len(v) : v[i] = h.b
    [] h.c = "member" -> \E i \in 1..Len(h.a) : h.a[i] = v
    [] h.c = "randcode" -> /\ Size(v) >= 1 /\ Size(v) <= h.a
                           /\ \A i \in 1..Len(Points(v)) :
                                LET p == Points(v)[i] IN
                                \/ p.k \in {"list", "bool", "int", "id"}
                                \/ (p.k = "ins" /\ p.v \in KnownInstr)
                                \/ (p.k = "float" /\ ~FIsNaN(p.v) /\ ~FLt(p.v, FPosZero) /\ FLt(p.v, FOne))
    [] h.c = "ivecrand" -> Len(v) = h.a /\ \A i \in 1..Len(v) : v[i] >= h.b[1] /\ v[i] < h.b[2]
    \* length a, and the number of TRUE bits within the documented rounding of sparsity * length
    [] h.c = "bvecrand" -> /\ Len(v) = h.a
                           /\ (h.a <= 30000 =>
                                 LET cnt == Cardinality({i \in 1..Len(v) : v[i]})
                                     t   == FloorScaled(h.b, 16)
                                     slack == 65536 + 330 * h.a
                                 IN cnt * 65536 >= t * h.a - slack /\ cnt * 65536 <= (t + 1) * h.a + slack)
    [] OTHER          -> FALSE

HolesUnder(holes, f)      == SelectSeq(holes, LAMBDA h : h.p[1] = f)
HolesAt2(holes, f, i)     == SelectSeq(holes, LAMBDA h : h.p[1] = f /\ h.p[2] = i /\ Len(h.p) = 2)
HolesAt3(holes, f, i)     == SelectSeq(holes, LAMBDA h : h.p[1] = f /\ h.p[2] = i /\ Len(h.p) = 3)
HolesAt3j(holes, f, i, j) == SelectSeq(holes, LAMBDA h : h.p[1] = f /\ h.p[2] = i /\ Len(h.p) = 3 /\ h.p[3] = j)

MatchElem(holes, f, i, pv, cv) ==
  LET h2 == HolesAt2(holes, f, i)
      h3 == HolesAt3(holes, f, i)
  IN IF h2 # <<>> THEN ClassOK(h2[1], cv, pv)
     ELSE IF h3 # <<>> THEN
          /\ Len(pv) = Len(cv)
          /\ \A j \in 1..Len(pv) :
               LET hj == HolesAt3j(holes, f, i, j) IN
               IF hj # <<>> THEN ClassOK(hj[1], cv[j], pv[j]) ELSE pv[j] = cv[j]
     ELSE pv = cv

MatchField(res, c, f) ==
  IF HolesUnder(res.holes, f) = <<>> THEN res.post[f] = c[f]
  ELSE /\ Len(res.post[f]) = Len(c[f])
       /\ \A i \in 1..Len(c[f]) : MatchElem(res.holes, f, i, res.post[f][i], c[f][i])

Matches(res, c) == \A f \in AllFields : MatchField(res, c, f)
\* the fields on which a concrete state differs from a result (diagnostics)
Mismatch(res, c) == {f \in AllFields : ~MatchField(res, c, f)}
=============================================================================
