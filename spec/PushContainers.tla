--------------------------- MODULE PushContainers ---------------------------
(***************************************************************************)
(* The two generic containers of pushr as specifications of their public   *)
(* APIs (properties C16, C17):                                             *)
(*  - PushStack: a plain sequence with position 0 at the top;              *)
(*  - PushBuffer: an abstract bounded sequence (BoundedSeq: live items     *)
(*    oldest -> newest, capacity, kind) AND the implementation-level ring  *)
(*    (RingImpl: cells, start, end, len as in buffer.rs) with the          *)
(*    refinement mapping Live between them.                                *)
(* A result is [post, ret]; ret is [t, v] with t in none/some/ok/err/unit/ *)
(* val.                                                                    *)
(***************************************************************************)
EXTENDS PushFootprint

RNone    == [t |-> "none", v |-> 0]
RSome(x) == [t |-> "some", v |-> x]
RUnit    == [t |-> "unit", v |-> 0]
RVal(x)  == [t |-> "val",  v |-> x]
ROk      == [t |-> "ok",   v |-> 0]
RErr(k)  == [t |-> "err",  v |-> k]
PR(post, ret) == [post |-> post, ret |-> ret]

---------------------------------------------------------------------------
(* PushStack<T>; s is top first; elem = "int" | "item" | "float" (floats as bit patterns) *)
\* a float stack prints its elements with one decimal; `last_eq` compares with == (NaN equals nothing, the zeros are equal),
\* `equal_at` compares the shortest decimal forms, which differ exactly when the values do (NaN reads "NaN", -0 reads "-0")
ElemStr(elem, x) == IF elem = "int" THEN ToString(x) ELSE IF elem = "float" THEN FixedFloat(x, 1) ELSE PrintItem(x)
ElemShallowEq(elem, a, b) == IF elem = "int" THEN a = b ELSE IF elem = "float" THEN FEq(a, b) ELSE a.k = b.k
ElemStrEq(elem, a, b) == IF elem = "int" THEN a = b
                         ELSE IF elem = "float" THEN (FIsNaN(a) /\ FIsNaN(b)) \/ (~FIsNaN(a) /\ ~FIsNaN(b) /\ a = b)
                         ELSE PrintItem(a) = PrintItem(b)

StackOp(elem, m, a, s) ==
  LET n == Len(s) IN
  CASE m = "to_string" -> PR(s, RVal(JoinStr([i \in 1..n |-> ElemStr(elem, s[i])], " ")))
    [] m = "size"     -> PR(s, RVal(n))
    [] m = "last_eq"  -> PR(s, RVal(n > 0 /\ ElemShallowEq(elem, s[1], a[1])))
    [] m = "equal_at" -> PR(s, IF a[1] >= n THEN RNone ELSE RSome(ElemStrEq(elem, s[a[1] + 1], a[2])))
    [] m = "bottom_mut" -> PR(s, IF n = 0 THEN RNone ELSE RSome(s[n]))
    [] m = "flush"    -> PR(<<>>, RUnit)
    [] m = "replace"  -> IF a[1] < n THEN PR(ReplaceAt(s, a[1] + 1, a[2]), ROk) ELSE PR(s, RErr(a[1] - n + 1))
    [] m = "remove"   -> PR(IF a[1] < n THEN RemoveAt(s, a[1] + 1) ELSE s, RUnit)
    [] m = "reverse"  -> PR(Rev(s), RUnit)
    [] m \in {"get", "get_mut", "copy"} -> PR(s, IF a[1] < n THEN RSome(s[a[1] + 1]) ELSE RNone)
    [] m = "push"       -> PR(<<a[1]>> \o s, RUnit)
    [] m = "push_front" -> PR(s \o <<a[1]>>, RUnit)
    [] m = "yank"     -> PR(IF a[1] > 0 /\ a[1] < n THEN YankSeq(s, a[1]) ELSE s, RUnit)
    [] m = "shove"    -> PR(IF a[1] > 0 /\ a[1] < n THEN ShoveSeq(s, a[1]) ELSE s, RUnit)
    [] m = "pop_front" -> IF n = 0 THEN PR(s, RNone) ELSE PR(Front(s), RSome(s[n]))
    [] m = "pop"      -> IF n = 0 THEN PR(s, RNone) ELSE PR(Tail(s), RSome(s[1]))
    \* the last element of the returned vector is the (former) top
    [] m = "pop_vec"  -> IF a[1] > n THEN PR(s, RNone) ELSE PR(Drop(s, a[1]), RSome(Rev(Take(s, a[1]))))
    [] m = "copy_vec" -> IF a[1] > n THEN PR(s, RNone) ELSE PR(s, RSome(Rev(Take(s, a[1]))))
    [] m = "push_vec" -> PR(Rev(a[1]) \o s, RUnit)
    [] m = "from_vec" -> PR(Rev(a[1]), RUnit)
    [] m = "clone_from" -> PR(Rev(a[1]), RUnit)
    [] m = "clone"    -> PR(s, RVal(s))
    \* an element of any nesting depth is printed in full, equals itself and differs from one with another leaf
    [] m = "deep_probe" -> IF elem # "item" THEN PR(s, RNone)
                           ELSE LET d == DeepItem(a[1], a[2]) IN
                                PR(s, RVal([text |-> JoinStr([i \in 1..(n + 1) |-> ElemStr(elem, (<<d>> \o s)[i])], " "),
                                            copy |-> PrintItem(d), same |-> TRUE, other |-> FALSE, back |-> TRUE]))
StackMethods == {"to_string", "size", "last_eq", "equal_at", "bottom_mut", "flush", "replace", "remove", "reverse",
                 "get", "get_mut", "copy", "push", "push_front", "yank", "shove", "pop_front", "pop", "pop_vec",
                 "copy_vec", "push_vec", "from_vec", "clone", "clone_from"}

---------------------------------------------------------------------------
(* PushBuffer: abstract bounded sequence; live = items oldest -> newest *)
AbsOp(kind, cap, m, a, live) ==
  LET n == Len(live)
      \* position i as the kind sees it: a stack counts from the newest, a queue from the oldest
      at(i) == IF kind = "stack" THEN live[n - i] ELSE live[i + 1]
  IN
  CASE m = "capacity" -> PR(live, RVal(cap))
    [] m = "size"     -> PR(live, RVal(n))
    [] m = "is_empty" -> PR(live, RVal(n = 0))
    [] m = "is_full"  -> PR(live, RVal(n = cap))
    \* a plain push is ignored when full
    [] m = "push"       -> PR(IF n = cap THEN live ELSE live \o <<a[1]>>, RUnit)
    \* a forced push overwrites the oldest item when full
    [] m = "push_force" -> PR(IF n = cap THEN Tail(live) \o <<a[1]>> ELSE live \o <<a[1]>>, RUnit)
    \* a queue pops the oldest, a stack the newest
    [] m = "pop" -> IF n = 0 THEN PR(live, RNone)
                    ELSE IF kind = "queue" THEN PR(Tail(live), RSome(live[1]))
                    ELSE PR(Front(live), RSome(live[n]))
    [] m = "flush" -> PR(<<>>, RUnit)
    [] m \in {"get", "get_mut", "copy"} -> PR(live, IF a[1] < n THEN RSome(at(a[1])) ELSE RNone)
    [] m \in {"peek_oldest", "copy_oldest"} -> PR(live, IF n = 0 THEN RNone ELSE RSome(live[1]))
    [] m = "peek_newest" -> PR(live, IF n = 0 THEN RNone ELSE RSome(live[n]))
    [] m = "iter"     -> PR(live, RVal(live))
    [] m = "iter_len" -> PR(live, RVal(n))
    \* the standard iterator adapters on iter(): oldest first, nothing skipped silently
    [] m = "iter_skip" -> PR(live, RVal(IF a[1] >= n THEN <<>> ELSE SubSeq(live, a[1] + 1, n)))
    [] m = "iter_nth"  -> PR(live, IF a[1] < n THEN RSome(live[a[1] + 1]) ELSE RNone)
    [] m = "iter_step" -> PR(live, RVal([j \in 1..((n + a[1] - 1) \div a[1]) |-> live[(j - 1) * a[1] + 1]]))
    [] m = "iter_last" -> PR(live, IF n = 0 THEN RNone ELSE RSome(live[n]))
    \* exactly the live items, newest first
    [] m = "to_string" -> PR(live, RVal(JoinStr([i \in 1..n |-> ToString(live[n + 1 - i])], " ")))
BufferMethods == {"capacity", "size", "is_empty", "is_full", "push", "push_force", "pop", "flush", "get", "get_mut",
                  "copy", "peek_oldest", "copy_oldest", "peek_newest", "iter", "iter_len", "to_string",
                  "iter_skip", "iter_nth", "iter_step", "iter_last"}

\* implementation level: b = [cap, start, end, len, cells]; cells 0-based in the code, 1-based here
Cell(b, i)  == b.cells[i + 1]
RingIndex(kind, b, i) ==   \* get_index: -1 for "None"
  IF b.len = 0 \/ i > b.len - 1 THEN -1
  ELSE IF kind = "stack" THEN (b.start + 2 * b.cap - (i + 1)) % b.cap
  ELSE (b.end + i) % b.cap
SetCell(b, i, x) == [b EXCEPT !.cells[i + 1] = x]
RingNew(cap) == [cap |-> cap, start |-> 0, end |-> 0, len |-> 0, cells |-> SeqOf(0, cap)]
RingOp(kind, m, a, b) ==
  CASE m = "capacity" -> PR(b, RVal(b.cap))
    [] m = "size"     -> PR(b, RVal(b.len))
    [] m = "is_empty" -> PR(b, RVal(b.len = 0))
    [] m = "is_full"  -> PR(b, RVal(b.len = b.cap))
    [] m = "push" -> IF b.len = b.cap THEN PR(b, RUnit)
                     ELSE PR([SetCell(b, b.start, a[1]) EXCEPT !.len = @ + 1, !.start = (@ + 1) % b.cap], RUnit)
    [] m = "push_force" ->
         LET b1 == SetCell(b, b.start, a[1])
             b2 == IF b.len = b.cap THEN [b1 EXCEPT !.end = (@ + 1) % b.cap] ELSE [b1 EXCEPT !.len = @ + 1]
         IN PR([b2 EXCEPT !.start = (@ + 1) % b.cap], RUnit)
    [] m = "pop" -> LET idx == RingIndex(kind, b, 0) IN
                    IF idx = -1 THEN PR(b, RNone)
                    ELSE IF kind = "queue"
                    THEN PR([SetCell(b, idx, 0) EXCEPT !.len = @ - 1, !.end = (@ + 1) % b.cap], RSome(Cell(b, idx)))
                    ELSE PR([SetCell(b, idx, 0) EXCEPT !.len = @ - 1, !.start = idx], RSome(Cell(b, idx)))
    [] m = "flush" -> PR(RingNew(b.cap), RUnit)
    [] m \in {"get", "get_mut", "copy"} ->
         LET idx == RingIndex(kind, b, a[1]) IN PR(b, IF idx = -1 THEN RNone ELSE RSome(Cell(b, idx)))
    [] m \in {"peek_oldest", "copy_oldest"} -> PR(b, IF b.len = 0 THEN RNone ELSE RSome(Cell(b, b.end)))
    [] m = "peek_newest" -> PR(b, IF b.len = 0 THEN RNone ELSE RSome(Cell(b, (b.start + b.cap - 1) % b.cap)))
    [] m = "iter"     -> PR(b, RVal([i \in 1..b.len |-> Cell(b, (b.end + i - 1) % b.cap)]))
    [] m = "iter_len" -> PR(b, RVal(b.len))
    [] m = "iter_skip" -> PR(b, RVal(IF a[1] >= b.len THEN <<>> ELSE [i \in 1..(b.len - a[1]) |-> Cell(b, (b.end + a[1] + i - 1) % b.cap)]))
    [] m = "iter_nth"  -> PR(b, IF a[1] < b.len THEN RSome(Cell(b, (b.end + a[1]) % b.cap)) ELSE RNone)
    [] m = "iter_step" -> PR(b, RVal([j \in 1..((b.len + a[1] - 1) \div a[1]) |-> Cell(b, (b.end + (j - 1) * a[1]) % b.cap)]))
    [] m = "iter_last" -> PR(b, IF b.len = 0 THEN RNone ELSE RSome(Cell(b, (b.end + b.len - 1) % b.cap)))
    [] m = "to_string" -> PR(b, RVal(JoinStr([i \in 1..b.len |-> ToString(Cell(b, (b.start + 2 * b.cap - i) % b.cap))], " ")))

\* refinement mapping: the live items are the len cells from `end`, cyclically
Live(b) == [i \in 1..b.len |-> Cell(b, (b.end + i - 1) % b.cap)]
RingInv(b) == /\ b.len >= 0 /\ b.len <= b.cap /\ b.start \in 0..(b.cap - 1) /\ b.end \in 0..(b.cap - 1)
              /\ Len(b.cells) = b.cap
              /\ (b.end + b.len) % b.cap = b.start                  \* the cursors agree
              /\ \A i \in 0..(b.cap - 1) :                          \* dead cells hold the default value
                   (\A k \in 0..(b.len - 1) : (b.end + k) % b.cap # i) => Cell(b, i) = 0
=============================================================================
